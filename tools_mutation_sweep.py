#!/usr/bin/env python3
"""Mechanical mutation sweep (optional tool, not a registered check).

Complements the independently written seeded changes of seeded/: single-token
mutations of coap-lite's sources (relational / arithmetic / logical operators,
integer literals, shifts, masks, boolean literals) are applied one at a time in
scratch git worktrees.  A mutant that still compiles and keeps the crate's own
49 tests green is handed to the quick checks of the properties anchored in the
mutated file (a copy of the harness is built against the worktree; /repo is
never touched).  Output: mutation_sweep.json with one record per mutant.

  tools_mutation_sweep.py run [--workers 4] [--sample 60 (per source file)] [--seed 1] [--scale 0.25]
  tools_mutation_sweep.py report

Scratch space: /tmp/clv-mut (removed by `clean`).
"""
import json
import os
import random
import re
import subprocess
import sys
import threading
import time

VERIF = os.path.dirname(os.path.abspath(__file__))
SCRATCH = "/tmp/clv-mut"
OUT = os.path.join(VERIF, "mutation_sweep.json")
ENV = dict(os.environ, CARGO_NET_OFFLINE="true", CARGO_TERM_COLOR="never")
# where the sources are read from (a clean checkout of the commit under test)
SRC_ROOT = os.environ.get("SRC_ROOT", "/repo")

FILES = {
    "src/packet.rs": ["C01", "C02", "C03", "C04", "C05", "C06", "C19"],
    "src/header.rs": ["C01", "C02", "C05", "C07", "C19"],
    "src/option_value.rs": ["C06", "C13", "C05", "C09"],
    "src/request.rs": ["C07", "C19", "C12", "C14"],
    "src/response.rs": ["C07", "C19", "C05"],
    "src/observe.rs": ["C14", "C15"],
    "src/block_handler/mod.rs": ["C08", "C09", "C10", "C11", "C12", "C20"],
    "src/block_handler/block_value.rs": ["C13", "C10", "C11"],
    "src/link_format.rs": ["C16", "C17", "C18"],
    "src/impl_coap_message.rs": ["C19"],
    "src/impl_coap_message_0_3.rs": ["C19"],
}

OPS = [
    (r" <= ", [" < ", " == "]),
    (r" >= ", [" > ", " == "]),
    (r" < ", [" <= "]),
    (r" > ", [" >= "]),
    (r" == ", [" != "]),
    (r" != ", [" == "]),
    (r" \+ ", [" - "]),
    (r" - ", [" + "]),
    (r" \* ", [" + "]),
    (r" / ", [" * "]),
    (r" % ", [" / "]),
    (r" && ", [" || "]),
    (r" \|\| ", [" && "]),
    (r" << ", [" >> "]),
    (r" >> ", [" << "]),
    (r" & ", [" | "]),
    (r" \| ", [" & "]),
    (r"\btrue\b", ["false"]),
    (r"\bfalse\b", ["true"]),
    (r"\+= ", ["-= "]),
    (r"-= ", ["+= "]),
    (r"\.saturating_sub\(", [".wrapping_sub("]),
    (r"\.checked_add\(", [".checked_sub("]),
    (r"\.min\(", [".max("]),
    (r"\.max\(", [".min("]),
    (r"\.is_some\(\)", [".is_none()"]),
    (r"\.is_none\(\)", [".is_some()"]),
    (r"\.is_empty\(\)", [".len() == 1"]),
    (r"\bSome\(true\)", ["Some(false)"]),
]
NUM = re.compile(r"(?<![\w.])(0x[0-9A-Fa-f_]+|\d[\d_]*)(?![\w.])")


def source_lines(path):
    """(index, text) of mutable lines: outside tests, hooks, comments, attributes."""
    lines = open(path).read().split("\n")
    out = []
    in_tests = False
    skip_item = 0
    for i, l in enumerate(lines):
        s = l.strip()
        if s.startswith("#[cfg(test)]"):
            in_tests = True
        if in_tests:
            continue
        if "verif_hooks" in l:
            skip_item = 12
        if skip_item:
            skip_item -= 1
            continue
        if not s or s.startswith("//") or s.startswith("#[") or s.startswith("use ") or s.startswith("pub use "):
            continue
        if "coap_debug!" in l or "coap_info!" in l or "format!(" in l or "write!(" in l:
            continue
        code = l.split("//")[0]
        out.append((i, code))
    return lines, out


def mutants_for(path):
    lines, cand = source_lines(path)
    res = []
    for i, code in cand:
        # do not touch string literals
        if '"' in code:
            continue
        for pat, reps in OPS:
            for m in re.finditer(pat, code):
                # `<` / `>` of generics and `->` / `=>` are not operators
                a, b = m.span()
                if pat in (r" < ", r" > ") and ("<" in code[:a].split()[-1:] or "->" in code[max(0, a - 2):b + 1] or "=>" in code[max(0, a - 2):b + 1]):
                    continue
                if pat == r" - " and code[b:b + 1] == ">":
                    continue
                for rep in reps:
                    new = code[:a] + rep + code[b:]
                    res.append((i, lines[i], new + lines[i][len(code):], f"{m.group(0).strip()} -> {rep.strip()}"))
        for m in NUM.finditer(code):
            tok = m.group(1)
            try:
                v = int(tok.replace("_", ""), 0)
            except ValueError:
                continue
            a, b = m.span(1)
            for nv in ({v + 1, max(v - 1, 0)} - {v}):
                rep = hex(nv) if tok.startswith("0x") else str(nv)
                new = code[:a] + rep + code[b:]
                res.append((i, lines[i], new + lines[i][len(code):], f"{tok} -> {rep}"))
    return res


def sh(cmd, cwd, timeout=1800, env=None):
    try:
        p = subprocess.run(cmd, cwd=cwd, env=env or ENV, stdout=subprocess.PIPE, stderr=subprocess.STDOUT,
                           text=True, timeout=timeout)
        return p.returncode, p.stdout
    except subprocess.TimeoutExpired as e:
        return "timeout", (e.stdout or b"").decode(errors="replace") if isinstance(e.stdout, bytes) else (e.stdout or "")


class Worker(threading.Thread):
    def __init__(self, k, queue, results, lock, scale):
        super().__init__()
        self.k, self.queue, self.results, self.lock, self.scale = k, queue, results, lock, scale
        self.wt = f"{SCRATCH}/wt{k}"
        self.h = f"{SCRATCH}/h{k}"

    def setup(self):
        if not os.path.isdir(self.wt):
            sh(["git", "-C", "/repo", "worktree", "add", "--detach", "-f", self.wt, "HEAD"], cwd="/")
        sh(["git", "checkout", "--", "."], cwd=self.wt)
        os.makedirs(self.h, exist_ok=True)
        sh(["rsync", "-a", "--delete", "--exclude", "target*", os.path.join(VERIF, "harness") + "/", self.h + "/"], cwd="/")
        toml = open(f"{self.h}/Cargo.toml").read().replace('path = "/repo"', f'path = "{self.wt}"')
        open(f"{self.h}/Cargo.toml", "w").write(toml)

    def run(self):
        self.setup()
        while True:
            with self.lock:
                if not self.queue:
                    return
                job = self.queue.pop()
            rec = self.evaluate(job)
            with self.lock:
                self.results.append(rec)
                json.dump(self.results, open(OUT + ".partial", "w"), indent=0)
                print(f"[w{self.k}] {rec['file']}:{rec['line']} {rec['op']}: {rec['status']} {rec.get('caught_by', '')}", flush=True)

    def evaluate(self, job):
        f, (i, old, new, op) = job
        rec = {"file": f, "line": i + 1, "op": op, "old": old.strip(), "new": new.strip()}
        path = os.path.join(self.wt, f)
        sh(["git", "checkout", "--", "."], cwd=self.wt)
        lines = open(path).read().split("\n")
        assert lines[i] == old
        lines[i] = new
        open(path, "w").write("\n".join(lines))
        try:
            rc, out = sh(["cargo", "test", "--offline", "--lib", "--quiet"], cwd=self.wt, timeout=900)
            if rc == "timeout":
                rec["status"] = "killed-by-tests(timeout)"
                return rec
            if rc != 0:
                rec["status"] = "does-not-compile" if "error[" in out or "error:" in out and "test result" not in out else "killed-by-tests"
                return rec
            rc, out = sh(["cargo", "build", "--quiet", "--profile", "checked", "--features", "hooks",
                          "--target-dir", f"{self.h}/target"], cwd=self.h, timeout=1800)
            if rc != 0:
                rec["status"] = "harness-build-failed"
                rec["detail"] = out[-400:]
                return rec
            caught = []
            env = dict(ENV, CLV_THREADS="4", VERIF_SCALE=str(self.scale))
            for pid in FILES[f]:
                rc, out = sh([f"{self.h}/target/checked/clv", "run", pid, "--tier", "quick",
                              "--report", f"{SCRATCH}/rep{self.k}.json", "--known", os.path.join(VERIF, "known_findings.txt"),
                              "--replay-dir", f"{SCRATCH}/replays{self.k}"], cwd=VERIF, timeout=1200, env=env)
                if rc == 1:
                    sig = ""
                    try:
                        r = json.load(open(f"{SCRATCH}/rep{self.k}.json"))
                        sig = ",".join(sorted({v["signature"] for v in r["violations"]}))[:120]
                    except Exception:
                        pass
                    caught.append(f"{pid}:{sig}")
                elif rc == "timeout":
                    caught.append(f"{pid}:hang")
                elif isinstance(rc, int) and (rc < 0 or rc in (134, 139)):
                    caught.append(f"{pid}:crash")
            rec["status"] = "caught" if caught else "SURVIVED"
            rec["caught_by"] = caught
            return rec
        finally:
            sh(["git", "checkout", "--", "."], cwd=self.wt)


def run(workers, sample, seed, scale, only=None):
    os.makedirs(SCRATCH, exist_ok=True)
    jobs = []
    for f in FILES:
        if only and only not in f:
            continue
        for m in mutants_for(os.path.join(SRC_ROOT, f)):
            jobs.append((f, m))
    rnd = random.Random(seed)
    rnd.shuffle(jobs)
    total = len(jobs)
    if sample:
        # stratified: at most `sample` mutants per source file
        seen, kept = {}, []
        for j in jobs:
            seen[j[0]] = seen.get(j[0], 0) + 1
            if seen[j[0]] <= sample:
                kept.append(j)
        jobs = kept
    print(f"{total} candidate mutants, evaluating {len(jobs)}", flush=True)
    results, lock = [], threading.Lock()
    if os.path.exists(OUT):
        results = json.load(open(OUT))
        done = {(r["file"], r["line"], r["op"]) for r in results}
        jobs = [j for j in jobs if (j[0], j[1][0] + 1, j[1][3]) not in done]
        print(f"{len(done)} already recorded, {len(jobs)} to do", flush=True)
    ws = [Worker(k, jobs, results, lock, scale) for k in range(workers)]
    for w in ws:
        w.start()
    for w in ws:
        w.join()
    json.dump(sorted(results, key=lambda r: (r["file"], r["line"], r["op"])), open(OUT, "w"), indent=1)
    if os.path.exists(OUT + ".partial"):
        os.remove(OUT + ".partial")
    report()


def report():
    rs = json.load(open(OUT))
    by = {}
    for r in rs:
        by.setdefault(r["status"].split("(")[0], []).append(r)
    print({k: len(v) for k, v in by.items()})
    viable = len(by.get("caught", [])) + len(by.get("SURVIVED", []))
    print(f"viable (compile + 49 tests pass): {viable}; caught by the quick checks: {len(by.get('caught', []))}")
    for r in by.get("SURVIVED", []):
        print(f"  SURVIVED {r['file']}:{r['line']} [{r['op']}]  {r['new']}")


def clean():
    for k in range(32):
        wt = f"{SCRATCH}/wt{k}"
        if os.path.isdir(wt):
            sh(["git", "-C", "/repo", "worktree", "remove", "--force", wt], cwd="/")
    sh(["rm", "-rf", SCRATCH], cwd="/")
    sh(["git", "-C", "/repo", "worktree", "prune"], cwd="/")


if __name__ == "__main__":
    a = sys.argv[1:]
    def opt(name, default):
        return type(default)(a[a.index(name) + 1]) if name in a else default
    if not a or a[0] == "report":
        report()
    elif a[0] == "clean":
        clean()
    elif a[0] == "list":
        n = 0
        for f in FILES:
            ms = mutants_for(os.path.join(SRC_ROOT, f))
            n += len(ms)
            print(f, len(ms))
        print("total", n)
    elif a[0] == "run":
        run(opt("--workers", 4), opt("--sample", 60), opt("--seed", 1), opt("--scale", 0.25), opt("--only", ""))
