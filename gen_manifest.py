#!/usr/bin/env python3
"""Generates MANIFEST.json from the table below (kept in one place so the
manifest stays valid while checks are added)."""
import json

IMPLEMENTED = {
    "C01": {
        "technique": "property-based testing: proptest build-script generation + exhaustive boundary sweeps against an independent RFC 7252 reference encoder (round trip through the decoder); libFuzzer target wire_encode in the thorough tier",
        "text": "Generated-input search with an explicit oracle: every encoded image is compared byte for byte with a reference encoder written from RFC 7252 section 3 and decoded back field by field. Exhaustive over all 65536 first-option numbers, all value lengths across both thresholds and a delta x length boundary grid; random shuffled API scripts elsewhere. A pass outside the exhaustive parts means 'not found in N structured cases'.",
        "note": "Trusted base: the reference encoder/model in harness/src/refmodel/wire.rs, proptest, rustc. Overflow-checks on and off (quick); udp / no_std feature sets, ASan harness and libFuzzer in the thorough tier.",
        "design": "DESIGN.md section 3, C01",
    },
}

NOT_YET = "check not built yet in this round; planned per DESIGN.md section 3"


def main():
    checks = []
    for pid, d in sorted(IMPLEMENTED.items()):
        checks.append({
            "property_id": pid,
            "quick_cmd": f"./check {pid} --tier quick",
            "thorough_cmd": f"./check {pid} --tier thorough",
            "evidence_file": f"/verif/evidence/{pid}.json",
            "replay_cmd_template": f"./check {pid} --replay {{path}}",
            "engine": "clv",
            "level_claimed": {
                "category": d.get("category", "exploration"),
                "text": d["text"],
                "design_ref": d["design"],
            },
            "level_note": d["note"],
            "technique": d["technique"],
        })
    na = []
    for i in range(1, 21):
        pid = "C%02d" % i
        if pid not in IMPLEMENTED:
            na.append({"property_id": pid, "reason": NOT_YET})
    manifest = {
        "version": 1,
        "setup_cmd": "./check --setup",
        "hooks": {
            "guard": "cargo feature verif_hooks (coap-lite)",
            "enable": "harness feature `hooks` -> coap-lite/verif_hooks; ./check always builds with it",
            "baseline_off_cmd": "cd /repo && cargo test --workspace --no-fail-fast --offline",
            "source_commits": [],
            "add_only": True,
        },
        "engines": [
            {
                "name": "clv",
                "path": "/verif/harness",
                "serves_properties": sorted(IMPLEMENTED),
                "kind_free_text": "Rust harness crate: proptest strategies with shrinking, exhaustive enumerators, reference models; driven by /verif/check (python3) which builds it against /repo's working tree in two arithmetic profiles, merges evidence and prints VIOLATION / KNOWN-FINDING lines",
            },
            {
                "name": "libfuzzer",
                "path": "/verif/fuzz",
                "serves_properties": ["C01", "C02", "C03", "C04", "C11", "C17"],
                "kind_free_text": "cargo-fuzz targets (ASan, oracle inside the target), thorough tier only",
            },
        ],
        "checks": checks,
        "notes": "Known findings: /verif/known_findings.jsonl. Exit codes: 0 held, 1 VIOLATION, 2 inconclusive (build failure / watchdog / harness error).",
        "not_applicable": na,
    }
    json.dump(manifest, open("/verif/MANIFEST.json", "w"), indent=1)


if __name__ == "__main__":
    main()
