#!/usr/bin/env python3
"""Generates MANIFEST.json from the table below (kept in one place so the
manifest stays valid while checks are added)."""
import json

TB = "Trusted base: the reference model / oracle code under harness/src (written from the RFCs, not from the crate), proptest, rustc/std."
ALL_CHECKS = {
    "C01": {
        "technique": "property-based testing: proptest build-script generation + exhaustive boundary sweeps against an independent RFC 7252 reference encoder (round trip through the decoder); libFuzzer target wire_encode in the thorough tier",
        "text": "Generated-input search with an explicit oracle: every encoded image is compared byte for byte with a reference encoder written from RFC 7252 section 3 and decoded back field by field. Exhaustive over all 65536 first-option numbers, all value lengths across both thresholds and a delta x length boundary grid; random shuffled API scripts elsewhere. A pass outside the exhaustive parts means 'not found in N structured cases'.",
        "note": TB + " Overflow-checks on and off and the udp feature set (quick); wrapping udp / no_std feature sets, ASan harness and libFuzzer in the thorough tier.",
    },
    "C02": {
        "technique": "exhaustive byte-string enumeration + proptest-generated corruptions/prefixes with a decode->re-encode identity oracle; libFuzzer target wire_decode in the thorough tier",
        "text": "Every accepted datagram is re-encoded without limit and compared with the input; only a trailing marker and the payload of a 0.00 message may be dropped, and the cut point is cross-checked with the reference parser. Exhaustive: 8 header templates x all tails of <= 2 (quick) / <= 3 (thorough) bytes, every option header byte x every 8-bit and (selected) 16-bit extension value, cumulative-number boundary shapes; plus every prefix and single-byte substitution of generated well-formed messages and random datagrams.",
        "note": TB + " Parser panics are counted and left to C03. Overflow-checks on and off and the udp feature set; datagrams of up to 200 kB and one option number repeated up to 70000 times are among the directed cases.",
    },
    "C03": {
        "technique": "differential testing against an independent three-valued RFC 7252 reference parser over exhaustive byte-string families, generated corruptions and random datagrams, with panic capture; libFuzzer target wire_decode in the thorough tier",
        "text": "from_bytes is compared with a reference parser that answers must-accept(fields) / must-reject(reason) / either; an accepted datagram must carry exactly the grammar's fields, a panic is always a violation. Same generators as C02; every reject reason is hit thousands of times. Stricter RFC-conformant behaviour (rejecting version != 1, empty payload after the marker, content in 0.00) is never reported.",
        "note": TB + " Which MessageError variant is returned is not compared. Overflow-checks on (overflow = panic) and off (overflow = wrong fields), the udp feature set, and an unoptimised build with 2 MiB stacks (recursion) in both tiers.",
    },
    "C04": {
        "technique": "property-based testing: (message, limit) pairs constructed to land on limit-1/limit/limit+1 via a reference length function, oracle success <=> exact RFC wire length <= limit; the same cases in an AddressSanitizer build of the harness (quick and thorough) + Miri and libFuzzer wire_encode (thorough) for the memory-safety clause",
        "text": "Every case checks all three entry points against the exact reference wire length (including limits L-1, L, L+1 around the message's own length), the returned bytes against the reference image, the error variant on refusal, and that option values beyond 65804 bytes are refused. The raw-pointer clause is decided by running the same generator in an AddressSanitizer build (both tiers, also with the udp feature set's 64000-byte limit in the plain build) and under Miri and a libFuzzer target in the thorough tier; in the plain build a wrong byte is caught by comparison and a hard crash is reported as a violation.",
        "note": TB + " ASan sees out-of-allocation writes, not writes into spare capacity; uninitialised bytes are visible only as wrong values.",
    },
    "C05": {
        "technique": "exhaustive enumeration of every number space compared with independently transcribed IANA/RFC registry tables (differential, both directions)",
        "text": "All 65536 option numbers, 65536 content-format ids (plus ids beyond u16), 256 code bytes, 256 first header bytes, 4 types and 65536 observe values are enumerated completely; name->number, number->name, both round trips, c.dd text form, set_code/get_code, is_error, the request/response API's second tables (get_method / get_status, directly and from the wire) and encoded/decoded header bytes are compared with tables that pair each enum variant with its registry number.",
        "note": "Trusted base: the registry transcription in harness/src/refmodel/registry.rs. UnKnown placeholders are only required to keep their byte.",
    },
    "C06": {
        "technique": "exhaustive enumeration (all 8/16-bit values, all byte strings <= 2/3 bytes at every width) + proptest for 32/64-bit values, strings and typed accessor histories against a strip-leading-zeros / big-endian-fold reference and std's UTF-8 validator",
        "text": "Encodings must equal the minimal big-endian reference and decode back; decoding accepts exactly the strings no longer than the width with the big-endian value; text options are checked against std::str::from_utf8; typed getters/setters are run over generated histories and compared element by element (including Err elements) with the reference.",
        "note": TB,
    },
    "C07": {
        "technique": "exhaustive enumeration of the type x version x token-length x message-id product + proptest random requests and HandlingError shapes, oracle = field-by-field correlation rules and reference encoding of the reply",
        "text": "The full 4 x 4 x 9 x 65536 product is enumerated; random requests with arbitrary code, options and payload check that nothing but message id, token and the derived type is carried over; apply_from_error is checked to change only code, payload and Content-Format and to report failure without a response or code.",
        "note": TB,
    },
    "C08": {
        "technique": "model-based property testing: a simulated in-order Block2 client and application stub drive the real handler through encoded bytes; exhaustive body lengths around block multiples + proptest transfer plans",
        "text": "For each generated transfer plan (body, options, budget, client size strategy, chaining) the client requests blocks 0,1,2,.. and the harness checks block size, more flag, offsets, repeated options, single application call, cache release and byte-for-byte reassembly.",
        "note": TB + " Calling protocol is the one of the in-crate TestServerHarness.",
    },
    "C09": {
        "technique": "model-based property testing: generated upload plans (body, block size, duplicates, abandoned predecessor) against the real handler, oracle = reassembled body equality, response codes/options and application call count",
        "text": "Every non-final block must be answered 2.31 with an echoed Block1 without reaching the application; the final block reaches it once with the exact body; oversized un-negotiated requests get 4.13 with a size hint (with an 'either' zone for the handler's 12-byte slack).",
        "note": TB + " One open known finding (duplicate delivery of the final block) is excluded by construction from the main search and reproduced by a directed case. Budgets go up to 1280 bytes in most cases and up to about 5000 in the rest (the statement does not bound them).",
    },
    "C10": {
        "technique": "property-based testing over (budget, overhead, client size) configurations with exhaustive bands around every power-of-two threshold; oracle = encoded lengths measured by the reference encoder and block-size rules",
        "text": "Every handler-produced message is measured as encoded bytes against the budget; chosen block sizes must be powers of two in 16..1024, never above the client's, equal to the client's when it fits with 32 bytes to spare; the client's next upload block is encoded by the reference encoder and must fit too.",
        "note": TB,
    },
    "C11": {
        "technique": "stateful property-based testing / fuzzing of hostile request sequences with panic capture, error-renderability oracle and a buffer-growth invariant measured through a hook and independently through the public API; libFuzzer target block_hostile (thorough)",
        "text": "Sequences of 1..6 hostile requests and application replies under budgets from 0 upward; every entry point must return normally, errors must be renderable 4.xx/5.xx, and no request may grow the upload buffer by more than 16 KiB beyond its own payload.",
        "note": TB + " Buffer lengths come from a read-only hook when available and from prefix replay + probe block otherwise.",
    },
    "C12": {
        "technique": "exhaustive enumeration of all interleavings of generated script sets (the harness owns the schedule of the &mut handler), oracle = per-transfer transcript equality with a solo run and message-id/token echo",
        "text": "For each script set (2-3 transfers differing in exactly one of endpoint/method/path, including segmentation and prefix paths) every interleaving is executed on a fresh handler and each transfer's transcript of encoded responses and application observations is compared with its solo transcript.",
        "note": TB,
    },
    "C13": {
        "technique": "exhaustive enumeration (all num x more x szx triples, all byte strings <= 3 bytes, a num x size construction grid) against an RFC 7959 section 2.2 reference",
        "text": "Complete enumeration of the 2^20 triples and the 2^24+ short byte strings; construction from byte sizes over 0..8200 and every power-of-two neighbour up to usize::MAX.",
        "note": TB + " Size exponent 7 (reserved by RFC 7959) is inside the stated domain.",
    },
    "C14": {
        "technique": "bounded exhaustive history enumeration + proptest long random histories, stepped against a reference model of the observe registry after every operation",
        "text": "All operation sequences to depth 5 (quick) / 6 (thorough) over a small alphabet are enumerated and compared step by step with a model; random histories of length up to 200 over larger alphabets. Run with and without coap-lite's `log` feature (logging arguments evaluated / not evaluated).",
        "note": TB + " The unacknowledged counter is compared directly through a read-only hook when available.",
    },
    "C15": {
        "technique": "the C14 history enumeration with limits {0,1,2} plus directed long histories at limits 10/254/255 and proptest notification parameters, against a counting model and the reference encoder",
        "text": "Sequence numbers must rise by exactly one per round on an observed resource; eviction must happen exactly past the limit for every limit including 0 and 255, in both arithmetic profiles; notifications are compared with the reference encoding.",
        "note": TB + " Sequence wrap at 2^32 rounds is out of reach of execution.",
    },
    "C16": {
        "technique": "round-trip property testing: generated link-format documents (exhaustive short values over a structural alphabet + random) written by the writer and parsed back",
        "text": "Targets, keys and unquoted values (both unquoting paths) must equal the originals for every generated document, newline option on and off, all three attribute writer methods.",
        "note": TB,
    },
    "C17": {
        "technique": "exhaustive enumeration of all strings <= 6 (quick) / <= 8 (thorough) over a structural alphabet + proptest random/prefix inputs, with panic capture, progress/substring/ordering invariants and a to_cow == to_string differential; libFuzzer target linkformat_parse (thorough)",
        "text": "Parser totality and the agreement of the two unquoting paths are decided on a complete enumeration of short strings and on random longer ones.",
        "note": TB + " Also run in an unoptimised build with 2 MiB stacks, where recursion the optimiser would turn into a loop overflows the stack; a hard crash is reported as a violation with the in-flight case as replay.",
    },
    "C18": {
        "category": "fault_enumeration",
        "technique": "fault injection: for each generated document every write-call index x {fail once, fail persistently} x newline on/off is enumerated completely with a fault-injecting fmt::Write sink; oracle = error reported, no write after the fault, sink content is a prefix of the fault-free output",
        "text": "Complete enumeration of fault positions per document over a few thousand generated documents and two sink flavours.",
        "note": TB,
    },
    "C19": {
        "technique": "exhaustive enumeration of named values and short path strings + proptest setter histories and random messages through both coap-message trait versions, oracle = registry tables, reference encoder and a model of the raw state",
        "text": "Every setter/getter pair is checked against the raw code/option/payload state and the encoded bytes, whatever the packet held before; unnamed values must surface as the documented unknown/error results; trait views must agree with the model.",
        "note": TB,
    },
    "C20": {
        "technique": "generated histories with real time: retention under intervening keys (1 h expiry), must-be-expired after >= 4x the configured duration, reclamation counted through Clone/Drop-counting endpoints and a read-only hook",
        "text": "Only directions that cannot flake under real time are asserted.",
        "note": TB + " Real clock (no fake clock for lru_time_cache is available offline).",
    },
}
for _k, _v in ALL_CHECKS.items():
    _v["design"] = "DESIGN.md section 3, " + _k

IMPLEMENTED_IDS = sorted(ALL_CHECKS)
IMPLEMENTED = {k: ALL_CHECKS[k] for k in IMPLEMENTED_IDS}

NOT_YET = "check not built yet in this round; planned per DESIGN.md section 3"


def main():
    checks = []
    for pid, d in sorted(IMPLEMENTED.items()):
        checks.append({
            "property_id": pid,
            "quick_cmd": f"./check {pid} --tier quick",
            "thorough_cmd": f"./check {pid} --tier thorough",
            "evidence_file": f"/verif/evidence/{pid}.json",
            "replay_cmd_template": f"./check {pid} --replay {{path}}",
            "engine": "clv",
            "level_claimed": {
                "category": d.get("category", "exploration"),
                "text": d["text"],
                "design_ref": d["design"],
            },
            "level_note": d["note"],
            "technique": d["technique"],
        })
    na = []
    for i in range(1, 21):
        pid = "C%02d" % i
        if pid not in IMPLEMENTED:
            na.append({"property_id": pid, "reason": NOT_YET})
    manifest = {
        "version": 1,
        "setup_cmd": "./check --setup",
        "hooks": {
            "guard": "cargo feature verif_hooks (coap-lite)",
            "enable": "harness feature `hooks` -> coap-lite/verif_hooks; ./check always builds with it",
            "baseline_off_cmd": "cd /repo && cargo test --workspace --no-fail-fast --offline",
            "source_commits": ["0d69b07"],
            "add_only": True,
        },
        "engines": [
            {
                "name": "clv",
                "path": "/verif/harness",
                "serves_properties": sorted(IMPLEMENTED),
                "kind_free_text": "Rust harness crate: proptest strategies with shrinking, exhaustive enumerators, reference models; driven by /verif/check (python3) which builds it against /repo's working tree in two arithmetic profiles, merges evidence and prints VIOLATION / KNOWN-FINDING lines",
            },
            {
                "name": "libfuzzer",
                "path": "/verif/fuzz",
                "serves_properties": ["C01", "C02", "C03", "C04", "C11", "C17"],
                "kind_free_text": "cargo-fuzz targets (ASan, oracle inside the target), thorough tier only",
            },
        ],
        "checks": checks,
        "notes": "Known findings: /verif/known_findings.txt (one open: C09 c09-final-duplicate-redelivered; the `fixed:` lines name the `fix:` commits in /repo). Exit codes: 0 held, 1 VIOLATION, 2 inconclusive (build failure / watchdog / harness error). Design, findings, seeded changes and their detection: /verif/DESIGN.md.",
        "not_applicable": na,
    }
    json.dump(manifest, open("/verif/MANIFEST.json", "w"), indent=1)


if __name__ == "__main__":
    main()
