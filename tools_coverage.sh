#!/bin/bash
# Optional measurement (not a registered check): which regions of coap-lite's
# sources do the 20 quick checks execute?  Builds a copy of the harness with
# -C instrument-coverage (nightly, llvm-tools), runs every check at a fifth of
# its quick case counts and prints the llvm-cov report for /repo/src.
# Scratch output goes to ${COV_DIR:-/tmp/clv-cov} and is removed at the end
# unless KEEP=1.
set -e
COV=${COV_DIR:-/tmp/clv-cov}
B=$(dirname "$(rustup +nightly which rustc)")/../lib/rustlib/x86_64-unknown-linux-gnu/bin
rm -rf "$COV"; mkdir -p "$COV/prof"
rsync -a --exclude 'target*' /verif/harness/ "$COV/h/"
cd "$COV/h"
RUSTFLAGS="-C instrument-coverage" CARGO_NET_OFFLINE=true cargo +nightly build --quiet \
  --profile checked --no-default-features --features std,hooks --target-dir "$COV/target"
cd /verif
for i in 01 02 03 04 05 06 07 08 09 10 11 12 13 14 15 16 17 18 19 20; do
  VERIF_SCALE=${VERIF_SCALE:-0.2} LLVM_PROFILE_FILE="$COV/prof/C$i-%p-%m.profraw" \
    "$COV/target/checked/clv" run C$i --tier quick --report "$COV/C$i.json" \
    --known /verif/known_findings.txt --replay-dir "$COV/replays" >/dev/null 2>&1 || echo "C$i exit $?"
done
"$B/llvm-profdata" merge -sparse "$COV"/prof/*.profraw -o "$COV/all.profdata"
"$B/llvm-cov" report "$COV/target/checked/clv" -instr-profile="$COV/all.profdata" \
  --ignore-filename-regex='(\.cargo|rustc|/h/src)' | grep -E "Filename|repo/src|TOTAL"
if [ -n "$SHOW" ]; then
  "$B/llvm-cov" show "$COV/target/checked/clv" -instr-profile="$COV/all.profdata" /repo/src/$SHOW \
    --show-regions=false | awk -F'|' '$2 ~ /^ *0$/ {print $1 "|" $3}'
fi
[ -n "$KEEP" ] || rm -rf "$COV"
