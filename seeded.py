#!/usr/bin/env python3
"""Confirm and evaluate seeded changes (mutants) of coap-lite.

  seeded.py confirm <ID> <N>   in the scratch worktree /tmp/wt/<ID>: the patch applies, builds, keeps the
                               49 tests green, the demo fails with it and passes without it
  seeded.py detect  <ID> <N> [--tier quick|thorough] [--props C01,C02]
                               apply the patch to /repo, run the registered check(s), undo the patch
  seeded.py import  <ID> <N>   copy patch/demo/notes from /tmp/wt/<ID>-out into /verif/seeded/<ID>-<N>/
  seeded.py table              print what is recorded

Results are recorded in /verif/seeded/<ID>-<N>/meta.json.  /repo is always
restored with `git checkout -- .` afterwards.
"""
import json
import os
import re
import shutil
import subprocess
import sys
import time

VERIF = os.path.dirname(os.path.abspath(__file__))
SEEDED = os.path.join(VERIF, "seeded")
ENV = dict(os.environ, CARGO_NET_OFFLINE="true", CARGO_TERM_COLOR="never")


def sh(cmd, cwd=None, timeout=3600):
    p = subprocess.run(cmd, cwd=cwd, env=ENV, shell=isinstance(cmd, str), text=True,
                       stdout=subprocess.PIPE, stderr=subprocess.STDOUT, timeout=timeout)
    return p.returncode, p.stdout


def mdir(pid, n):
    return os.path.join(SEEDED, f"{pid}-{n}")


def load_meta(pid, n):
    p = os.path.join(mdir(pid, n), "meta.json")
    return json.load(open(p)) if os.path.exists(p) else {"property": pid, "change": int(n)}


def save_meta(pid, n, meta):
    os.makedirs(mdir(pid, n), exist_ok=True)
    json.dump(meta, open(os.path.join(mdir(pid, n), "meta.json"), "w"), indent=1)


def do_import(pid, n):
    src = f"/tmp/wt/{pid}-out"
    d = mdir(pid, n)
    os.makedirs(d, exist_ok=True)
    shutil.copy(os.path.join(src, f"patch{n}.diff"), os.path.join(d, "patch.diff"))
    shutil.copy(os.path.join(src, f"demo{n}.rs"), os.path.join(d, "demo.rs"))
    if os.path.exists(os.path.join(src, "notes.md")):
        shutil.copy(os.path.join(src, "notes.md"), os.path.join(d, "notes-from-author.md"))
    meta = load_meta(pid, n)
    meta.setdefault("origin", "written by an independent sub-agent that saw only the property text and a scratch worktree of /repo")
    save_meta(pid, n, meta)


def confirm(pid, n):
    wt = f"/tmp/wt/{pid}"
    d = mdir(pid, n)
    patch = os.path.join(d, "patch.diff")
    meta = load_meta(pid, n)
    ran = []
    sh("git checkout -- . && rm -rf tests", cwd=wt)
    rc, out = sh(["git", "apply", "--check", patch], cwd=wt)
    if rc != 0:
        meta["confirmed"] = False
        meta["confirm_note"] = "patch does not apply to /repo HEAD: " + out[-300:]
        save_meta(pid, n, meta)
        return False
    sh(["git", "apply", patch], cwd=wt)
    builds = []
    for extra in ([], ["--features", "verif_hooks"]):
        rc, out = sh(["cargo", "build", "--offline", "--quiet"] + extra, cwd=wt)
        builds.append(rc == 0)
    rc, out = sh(["cargo", "test", "--offline", "--lib"], cwd=wt)
    m = re.search(r"test result: (\w+)\. (\d+) passed; (\d+) failed", out)
    suite_ok = bool(m and m.group(1) == "ok" and int(m.group(2)) == 49)
    ran.append(f"with patch: cargo build (default, verif_hooks) -> {builds}; cargo test --lib -> {m.group(0) if m else out[-200:]}")
    os.makedirs(os.path.join(wt, "tests"), exist_ok=True)
    shutil.copy(os.path.join(d, "demo.rs"), os.path.join(wt, "tests", "demo.rs"))
    feat = (["--features", meta["demo_features"]] if meta.get("demo_features") else [])
    rc_with, out_with = sh(["cargo", "test", "--offline", "--test", "demo"] + feat, cwd=wt)
    mw = re.findall(r"test result: .*", out_with)
    ran.append(f"with patch: cargo test --test demo -> exit {rc_with}; {mw[-1] if mw else out_with[-200:]}")
    sh("git checkout -- src Cargo.toml", cwd=wt)
    rc_without, out_without = sh(["cargo", "test", "--offline", "--test", "demo"] + feat, cwd=wt)
    mo = re.findall(r"test result: .*", out_without)
    ran.append(f"without patch: cargo test --test demo -> exit {rc_without}; {mo[-1] if mo else out_without[-200:]}")
    sh("git checkout -- . && rm -rf tests", cwd=wt)
    ok = all(builds) and suite_ok and rc_with != 0 and rc_without == 0
    meta["confirmed"] = ok
    meta["confirm_runs"] = ran
    save_meta(pid, n, meta)
    print(pid, n, "confirmed" if ok else "NOT CONFIRMED", ran)
    return ok


def detect(pid, n, tier="quick", props=None):
    d = mdir(pid, n)
    patch = os.path.join(d, "patch.diff")
    meta = load_meta(pid, n)
    rc, out = sh(["git", "-C", "/repo", "status", "--porcelain"])
    if out.strip():
        print("refusing: /repo has local changes:\n" + out)
        return
    rc, out = sh(["git", "-C", "/repo", "apply", patch])
    if rc != 0:
        print("patch does not apply to /repo:", out)
        return
    results = meta.setdefault("detection", {})
    saved = {}
    try:
        for p in (props or [pid]):
            # the evidence file on disk must describe the unchanged tree:
            # keep it aside while the check runs against the changed one
            evp = os.path.join(VERIF, "evidence", p + ".json")
            if os.path.exists(evp):
                saved[evp] = open(evp).read()
            t0 = time.time()
            rc, out = sh([os.path.join(VERIF, "check"), p, "--tier", tier], cwd=VERIF, timeout=6 * 3600)
            viol = [l for l in out.splitlines() if l.startswith("VIOLATION")]
            detail = [l.strip() for l in out.splitlines() if l.startswith("  [")]
            sigs = []
            for v in viol:
                m = re.search(r"replay=(\S+)", v)
                if m and os.path.exists(m.group(1)) and m.group(1).endswith(".json"):
                    try:
                        r = json.load(open(m.group(1)))
                        sigs.append(f"{r.get('check')}:{r.get('signature')}")
                    except Exception:
                        pass
            results[f"{p}/{tier}"] = {
                "exit": rc,
                "detected": rc == 1 and bool(viol),
                "violations": len(viol),
                "signatures": sorted(set(sigs)),
                "first_message": detail[0][:400] if detail else "",
                "wall_s": round(time.time() - t0, 1),
            }
            print(pid, n, p, tier, "exit", rc, "DETECTED" if rc == 1 else "missed", sorted(set(sigs)))
            if rc not in (0, 1):
                print(out[-1500:])
    finally:
        sh(["git", "-C", "/repo", "checkout", "--", "."])
        for evp, text in saved.items():
            open(evp, "w").write(text)
    save_meta(pid, n, meta)


def table():
    rows = []
    for name in sorted(os.listdir(SEEDED)):
        p = os.path.join(SEEDED, name, "meta.json")
        if not os.path.exists(p):
            continue
        m = json.load(open(p))
        det = m.get("detection", {})
        rows.append((name, m.get("confirmed"), {k: ("DETECTED" if v["detected"] else f"missed(exit {v['exit']})") for k, v in det.items()}, m.get("title", "")))
    for r in rows:
        print(r)


def main():
    a = sys.argv[1:]
    if not a:
        print(__doc__)
        return
    if a[0] == "table":
        table()
        return
    pid, n = a[1], a[2]
    tier = "quick"
    props = None
    if "--tier" in a:
        tier = a[a.index("--tier") + 1]
    if "--props" in a:
        props = a[a.index("--props") + 1].split(",")
    if a[0] == "import":
        do_import(pid, n)
    elif a[0] == "confirm":
        confirm(pid, n)
    elif a[0] == "detect":
        detect(pid, n, tier, props)


if __name__ == "__main__":
    main()
