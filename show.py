#!/usr/bin/env python3
import json,sys
r=json.load(open(sys.argv[1]))
print('wall', round(r.get('wall_s',0),2))
for p in r['parts']:
    print(p['name'],'eval',p['evaluations'],'nt',p['distinct_nontrivial'],'t',round(p['wall_s'],2),'exh',p['exhaustive'])
    for k,v in p['classes'].items(): print('     ',k,v)
for v in r['violations']: print('VIOL',v['check'],v['signature'],v['message'][:600]); print('   ',v['replay'])
for k in r['known_hits']: print('KNOWN',k['signature'],k['count'])
