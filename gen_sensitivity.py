#!/usr/bin/env python3
"""Writes section 11 of DESIGN.md (between the SENSITIVITY markers) from
seeded/*/meta.json plus the history of misses recorded below."""
import json, os, re

SEEDED = "/verif/seeded"

# seeded change -> what happened the first time and what was strengthened
HISTORY = {
    "C05-27": "missed at first (set_code was only called on a fresh header): it now runs from every previous code byte (256 x 256 pairs)",
    "C05-28": "missed at first (C05 ran in the default feature set only): C05 now also runs the `std,udp` configuration, whose 256 x 256 (first byte, code byte) sweep catches it",
    "C05-29": "missed by C05 at first (the setter was only used on an empty message): every named content format is now also set on messages that already hold one to three other Content-Format values",
    "C06-27": "missed at first (at most two forced leading zeros in the random decode inputs): the number of leading zeros now ranges over the whole length in two fifths of the cases",
    "C06-28": "missed at first (damaged long texts always contained non-ASCII characters throughout): plain ASCII texts of 8..200 bytes with a single byte >= 0x80, often in the last eight bytes, were added",
    "C10-32": "missed at first (C10 ran no second key): between two blocks of a download another download now starts on the path with its segments joined, with more response options",
    "C12-32": "missed at first (transfers of one set never had equal body lengths with different block sizes): a fifth of the sets now hold two downloads of 200 bytes with the same token length and first-request sizes two exponents apart",
    "C19-31": "missed at first (raw previous values were unrelated to the value being set): the zero-padded encoding of the very value being set was added as a previous raw value",
    "C04-25": "missed by C04 at first (its messages never had cleared option numbers): a quarter of the messages now carry option numbers that were added and cleared again",
    "C05-24": "missed at first (set_type was only tried from three fixed previous states with the default code): it now runs from every previous type x code {0.00, 0.01, 2.05, 0xFF} x token length {0, 3, 8}",
    "C05-25": "missed at first (the content-format id was only read through the conversion and from a bare message): every 16-bit id is now also read through Packet::get_content_format in six message contexts (codes 0.00 / 0.01 / 2.05 / 4.04 / 0.02, with and without Observe, path and payload)",
    "C05-26": "missed at first (the first-header-byte sweep used one code byte): all 256 x 256 (first byte, code byte) pairs are now parsed and re-encoded",
    "C06-24": "missed at first (accessor histories ran on a message whose code never changed): histories now set the code byte as one of their operations",
    "C06-26": "missed at first (damaged texts were at most 8 characters long): long texts (80..2400 bytes) with one byte replaced or cut inside the last character were added",
    "C08-27": "missed at first (a successor transfer on the same key never had the predecessor's length and options): a third of the same-key successors now copy length, code and options and differ only in content",
    "C10-28": "missed at first (all requests of an upload had the same overhead): a seventh of the uploads add an option of 12..51 bytes from the second block on; the budget domain is computed for the larger request",
    "C10-29": "missed at first (C10 ran one transfer per handler): a third of the downloads without a client size are preceded by an abandoned download of the same body with one more response option",
    "C11-27": "missed at first (hostile requests carried no Size1 / Size2 / ETag / If-Match / Observe options): such options with values of 0..4 bytes were added to the request and reply option choices",
    "C12-27": "missed at first: a pair of paths with the same text and segment count and the slash moved (['a/b','c'] vs ['a','b/c']) was added",
    "C12-28": "missed at first (clients asked for every block once): a quarter of the downloads ask for block 0 again with the largest block size as their second request",
    "C12-29": "missed at first (no transfer used the discovery path): pairs of endpoints on /.well-known/core were added",
    "C13-26": "missed at first (the construction sweep is ascending and each case was evaluated once): every construction is now repeated and followed by a size-0 call that must fail",
    "C16-24": "missed at first: the key dictionary got the RFC 6690 / 9176 names (lt, ep, d, gp, et, base, con, ins, exp, count, upper-case variants) and the values RFC 8187 extended values (utf-8'en'...)",
    "C18-26": "missed at first (documents had at most 3 links): three documents of 260..300 links are now put through every fault position",
    "C19-27": "missed at first (the previous path was unrelated to the new one): a quarter of the random cases use the new path with a slash added or removed in front as the previous path",
    "C19-29": "missed at first (cleared option numbers were never adjacent): a run of four adjacent cleared numbers below the last option was added",
    "C20-29": "missed at first (abandoned uploads in the intervening traffic came from other endpoints): in half of the cases they now come from K's own endpoint on paths of their own",
    "C04-21": "missed at first (code byte 0 was always built as MessageClass::Empty): half of the code-0 messages are now built by hand as Reserved(0); whether their payload is sent is read off the unlimited call as before",
    "C06-21": "missed at first (texts stopped at 9000 bytes): text options now include strings of 65535, 65536 and about 65800 bytes",
    "C07-22": "missed at first (request codes always came from a byte): code bytes 0xFF and 0x00 are now also built by hand as Request(UnKnown) / Response(UnKnown) / Reserved(0)",
    "C10-24": "missed at first (the application always answered 2.05 / 2.04): a fifth of the random configurations answer 4.04, 5.00, 2.01 or 4.31",
    "C14-24": "missed at first (no eight-byte token was a short token behind zeros and a marker byte): four such tokens were added to the wide alphabet",
    "C09-23": "missed at first (budgets stopped at 1280 bytes although C09 does not bound them): a fifth of the plain requests now run under budgets up to 5000 bytes; the extended generator first failed on the unchanged tree (finding 17, fixed in fe4e012). After that fix the handler never proposes more than 1024 bytes, so refusing size exponent 7 in BlockValue::new no longer touches C09 on the current tree (the registered run against the fixed tree is silent and the author's demonstration passes there); it is a C09 violation on the tree before the fix, where it was confirmed, and it still breaks C13, whose check catches it (`construction-from-byte-size`)",
    "C04-18": "missed at first (an over-long value never had a sibling under the same number): directed cases now put the over-long value before, after and between siblings and behind other options",
    "C06-18": "missed by C06 at first (set_content_format was only exercised by C19): the typed-accessor histories now include set_content_format, checked against the model of all other options",
    "C17-19": "same shape as C17-6 / C17-11: caught by the unoptimised configuration, which the quick tier now runs",
    "C05-15": "missed by C05 at first (the Observe number space was only read through ObserveOption::try_from): all 65536 values now also go through CoapRequest::get_observe_flag, minimal and zero-padded",
    "C17-16": "missed at first (the checks called to_cow() and never the `From<Unquote> for Cow` conversion, as the coverage measurement had shown): every value is now also converted with Cow::from",
    "C19-20": "missed at first (the trait writers ran on a packet without payload): half of the writer cases now start from a packet that already has a payload",
    "C04-15": "outside the stated domain: manifests only when the header's token-length nibble disagrees with the stored token (header replaced after set_token) or with a 256-byte token; the message model of C01/C04 has one token of 0..8 bytes and no separate TKL field, and the unchanged crate itself emits a malformed datagram for such a packet",
    "C03-19": "needs the `udp` feature set: caught by the quick tier's `std,udp` configuration",
    "C03-16": "missed at first (no datagram repeated one option number more than a few dozen times): `large-datagrams` (C02/C03) now repeats one number 254..70000 times and C01 got `repeated-option-values` (254..5000 values through add_option)",
    "C08-17": "missed at first (traffic on other keys between two blocks was plain and on unrelated paths): the in-between traffic now also runs complete block-wise downloads on seven look-alike keys (other endpoint, other method, empty segment in front / behind, segments joined, longer, shorter)",
    "C10-17": "missed at first (upload requests never carried a Block2 preference): a quarter of the random uploads now send Block2 with every block and get a large reply, whose block size is bound by that preference",
    "C14-16": "missed at first (no path segment longer than 40 bytes): the wide path alphabet has segments of 255 and 256 bytes that differ in the last byte",
    "C05-10": "missed by C05 at first (the second number -> name table behind CoapResponse::get_status was only exercised by C19): C05 now enumerates all 256 code bytes through get_method / get_status, directly and from the wire (`all-code-getter-numbers`)",
    "C02-11": "first seen by the thorough tier only (the changed line exists only with the `udp` feature): the quick tier of C01-C04 now also runs the `std,udp` feature set",
    "C02-10": "caught by one part only at first: C02/C03 got a `large-datagrams` part (payloads and option sections around 1280, 64000 and 65536 bytes, up to 200 kB)",
    "C04-11": "memory-only (output unchanged); in the plain build glibc happened to abort, so the quick tier of C04 now also runs its cases in the AddressSanitizer build",
    "C17-11": "unoptimised builds only (the optimiser turns the recursion into a loop): first caught by the thorough tier's unoptimised 2 MiB-stack configuration only; that configuration now also runs in the quick tier of C03 and C17",
    "C03-14": "needs the `udp` feature set: caught by the quick tier since it runs that configuration",
    "C10-13": "missed at first (clients never lowered the size mid-transfer in C10, and never came back for a block after the transfer): downloads now lower the size after block 0 in half of the random cases and every fragmented download is followed by late requests for blocks 1, 3 and 0 at equal or smaller sizes",
    "C10-14": "missed at first (long downloads let the server pick the size, so the regenerated block had the same size): the long downloads now include clients asking for 16/32/64-byte blocks under roomy budgets",
    "C14-13": "missed at first (needs coap-lite's `log` feature, where logging arguments are not evaluated): C14 and C15 now run a `std,log` configuration in both tiers",
    "C07-2": "missed at first (requests always came from from_packet): ErrCase now also removes the prepared response / builds the request with CoapRequest::new()",
    "C12-1": "missed at first (token length was constant per transfer): tokens now vary in length from request to request in half of the transfers",
    "C12-3": "same site as C12-1; caught by the varying token lengths",
    "C15-2": "missed at first (with the hook the count divergence after re-registration was attributed to C14 and the history ended): a count that survives a registration is now also C15's (`c15-count-not-reset-by-registration`)",
    "C17-2": "missed at first (only fresh values were unquoted): every value is now also unquoted after 1..7 iteration steps and must not panic (equality is not asserted there: the statement does not fix it)",
    "C19-1": "missed at first (generated packets had no empty option lists): the trait-view check now leaves cleared option numbers (empty value lists) in the packet",
    "C19-4": "same shape as C19-1 for coap-message 0.2; caught by the same strengthening",
    "C20-2": "missed at first (idle periods had no other traffic): half of the expiry / reclamation cases now keep the handler busy with other keys at a fifth of the expiry",
    "C20-4": "missed twice (busy traffic had only small, unfragmented replies; then fragmented replies only once per expiry): the busy traffic now makes a plain exchange, a cached download and a buffered upload block on other keys every fifth of the expiry",
    "C20-5": "caught through the reclamation clause; the expiry cases additionally got a plain-request-first variant",
    "C10-3": "missed at first (bodies <= 6000 bytes, block numbers below 4096): new exhaustive parts `every-budget-above-each-power-of-two` and `long-downloads-high-block-numbers` (jumps to blocks 15/16, 255/256, 4095/4096, last)",
    "C14-3": "missed at first (no path with a leading empty segment): the wide path alphabet now has ('//a' -> resource '/a') next to 'a', and 'a/'",
    "C14-5": "missed at first (a wrong order after an eviction was attributed to C15): same observers in another order is now always C14's (`c14-order-changed`)",
    "C15-4": "missed at first (message ids were 1 and 2): the enumeration alphabet now uses ids 0 and 1, random histories draw 0 and 65535 too",
    "C08-4": "missed at first (no generated response carried Observe): response option sets now include Observe and Location-Query",
    "C12-4": "missed at first (requests had no Uri-Query): new key-difference kind [a,b] vs [a]?b",
    "C12-5": "missed at first: new key-difference kind with one leading empty segment",
    "C17-4": "missed at first (no multi-byte white space in the generators): random strings now include every kind of blank and link-shaped strings with blanks around '='",
    "C08-6": "missed at first (no unrelated traffic inside a transfer; C20 caught the same change): downloads now send 0..1500 plain requests on other keys after the first block",
    "C08-8": "missed at first (C12 caught the same change): chained downloads now include a pair whose paths differ only in segmentation",
    "C09-8": "missed at first (repeated deliveries had fresh message ids; ids never repeated across uploads): duplicates are now true retransmissions in half of the plans and a new upload may count its ids from the same base as its abandoned predecessor",
    "C12-7": "missed at first (method pairs were GET/FETCH, PUT/POST): the differing method is now any of the seven codes",
    "C12-8": "missed at first: new key-difference kind with two different 255-byte segments",
    "C14-7": "NOT detected, deliberately: needs a 257-byte token; CoAP tokens are 0-8 bytes and every generated token respects that",
    "C14-8": "missed at first (at most 6 endpoints): new directed part `many-observers-on-one-resource` (up to 1000 endpoints)",
    "C16-7": "missed at first (`rel` was not among the generated keys): keys now include rel/rev/type/hreflang/media, repeated keys are common",
    "C16-8": "missed at first (values had no control characters): value alphabet now has C0/C1 controls and DEL",
    "C17-6": "at first the quick tier could not see it: the recursion only overflows the stack in an unoptimised build (with opt-level 2 the tail call is a loop). The thorough tier got an unoptimised build configuration with 2 MiB thread stacks for C03/C17 and inputs with thousands of repeated units between two attributes; the stack overflow aborts the harness and the driver reports the in-flight case as the VIOLATION. Since the sixth wave that configuration also runs in the quick tier",
    "C20-7": "missed at first: the key under test is now the two-segment path k, v and the intervening traffic includes its look-alikes ('k/v', trailing / leading empty segment, other case, other endpoint, other method)",
    "C05-8": "missed at first (C05 only exercised the conversions; C06 caught the same change): every named option / content format is now also encoded through the message API and read off the wire with the reference parser",
    "C07-7": "missed at first (one specific option value): new exhaustive part with every one-byte No-Response value on all four message types, plus bare requests",
    "C07-8": "missed at first (diagnostic texts were at most 20 characters): texts now go up to 70000 bytes",
    "C11-10": "missed in a preview run (random sequences never built a buffer whose capacity ran far ahead of its length): new directed staircases of maximal permitted jumps followed by probes beyond the limit",
    "C14-10": "missed in a preview run (four fixed tokens): the token alphabet now has 14 tokens of every length incl. near-identical 8-byte pairs and prefixes",
    "C20-11": "missed in a preview run (the 'next use' was always a plain GET): the next use is now one of five kinds, among them an oversized request without Block1",
    "C04-4": "NOT detected, deliberately: the change only differs for tokens of 256..271 bytes or a TKL set directly after set_token, both outside the property's domain (token of 0-8 bytes); the demo uses a 256-byte token",
    "C04-5": "first missed by the quick tier by construction (the changed line only exists with the `udp` feature; thorough caught it); the quick tier of C01-C04 now also runs the `std,udp` feature set",
}


def main():
    rows = []
    for name in sorted(os.listdir(SEEDED), key=lambda n: (n.split("-")[0], int(n.split("-")[1]))):
        p = os.path.join(SEEDED, name, "meta.json")
        if not os.path.exists(p):
            continue
        m = json.load(open(p))
        det = m.get("detection", {})
        res = []
        for k, v in sorted(det.items()):
            tier = k.split("/")[1]
            if v["detected"]:
                sigs = sorted({s.split(":")[1] for s in v["signatures"]}) or ["hard-crash"]
                parts = sorted({s.split(":")[0] for s in v["signatures"]})
                res.append(f"**{tier}: caught** by {', '.join('`'+x+'`' for x in parts[:3])}{' ..' if len(parts) > 3 else ''} ({', '.join(sigs[:3])})")
            else:
                res.append(f"{tier}: not caught")
        rows.append((name, m.get("confirmed"), m.get("title", ""), m.get("needs_to_manifest", ""), "; ".join(res), HISTORY.get(name, "")))
    total = len(rows)
    caught_q = sum(1 for r in rows if "quick: caught" in r[4])
    caught_t = sum(1 for r in rows if "thorough: caught" in r[4] and "quick: caught" not in r[4])
    out = []
    out.append(f"{total} seeded changes are kept in `seeded/<id>-<n>/` (patch.diff, demo.rs, meta.json, the author's notes). "
               f"Each was written by a fresh sub-agent that saw only the property text and a scratch worktree, and was confirmed by me "
               f"(`seeded.py confirm`: builds with and without hooks, the 49 tests pass, the demo fails with the change and passes without). "
               f"`seeded.py detect` applies the patch to /repo, runs the registered check and restores /repo. "
               f"Quick tier: {caught_q} of {total} caught; {caught_t} more by the thorough tier; the rest is explained in the table.\n")
    out.append("| change | what was changed | needs to manifest | result of the registered check | history |")
    out.append("|---|---|---|---|---|")
    for name, conf, title, needs, res, hist in rows:
        out.append(f"| {name}{'' if conf else ' (demo not confirmed)'} | {title} | {needs} | {res} | {hist} |")
    text = "\n".join(out) + "\n"
    d = open("/verif/DESIGN.md").read()
    a, b = "<!-- SENSITIVITY-BEGIN -->", "<!-- SENSITIVITY-END -->"
    if a in d:
        d = d[: d.index(a) + len(a)] + "\n" + text + d[d.index(b):]
    else:
        d += "\n--------------------------------------------------------------------------------\n\n## 11. Sensitivity: which checks catch which seeded change\n\n" + a + "\n" + text + b + "\n"
    open("/verif/DESIGN.md", "w").write(d)
    print(f"{total} rows, quick caught {caught_q}, thorough-only {caught_t}")


if __name__ == "__main__":
    main()
