//! Seeded, parallel case runner shared by every property.
//!
//! A *part* is one (generator, oracle) pair of a property.  Parts are driven
//! either by exhaustive enumeration (`run_enum`, `run_enum_chunks`) or by
//! proptest strategies with shrinking (`run_prop`).  Both record, per part:
//! how many cases ran, how many distinct non-trivial ones, a class histogram,
//! a few literal samples, and any violation together with the (shrunk) case.
//!
//! Replay: when `Ctx::replay` names a part, every other part is skipped and
//! the named part runs exactly the stored case, bypassing the generators.

use std::cell::{Cell, RefCell};
use std::collections::{BTreeMap, HashSet};
use std::fmt::Debug;
use std::hash::{Hash, Hasher};
use std::panic::{self, AssertUnwindSafe};
use std::path::PathBuf;

use proptest::strategy::Strategy;
use proptest::test_runner::{
    Config, RngSeed, TestCaseError, TestError, TestRunner,
};
use rayon::prelude::*;
use serde::de::DeserializeOwned;
use serde::Serialize;
use serde_json::{json, Value};

pub const WORKERS: u64 = 16;

/// `CLV_SEQUENTIAL=1`: no thread pool at all (used when the harness runs under
/// Miri, which objects to the pool's internals, and for crash tracing).
pub fn sequential() -> bool {
    std::env::var("CLV_SEQUENTIAL").map(|v| v == "1").unwrap_or(false)
}

fn map_indices<R: Send>(n: u64, f: impl Fn(u64) -> R + Sync + Send) -> Vec<R> {
    if sequential() {
        (0..n).map(f).collect()
    } else {
        (0..n).into_par_iter().map(f).collect()
    }
}

#[derive(Clone, Copy, PartialEq, Eq, Debug)]
pub enum Tier {
    Quick,
    Thorough,
}

#[derive(Clone, Debug)]
pub struct Replay {
    pub check: String,
    pub case: Value,
}

#[derive(Clone, Debug, serde::Deserialize)]
pub struct KnownFinding {
    pub status: String,
    pub property: String,
    pub signature: String,
    pub what: String,
    #[serde(default)]
    pub commit: Option<String>,
}

pub struct Ctx {
    pub property: String,
    pub tier: Tier,
    pub seed: u64,
    /// "checked" (overflow checks + debug assertions) or "wrapping".
    pub profile: String,
    pub features: String,
    pub replay: Option<Replay>,
    pub known: Vec<KnownFinding>,
    pub replay_dir: PathBuf,
    /// When set, every case is appended to this file before it runs (used by
    /// the driver to recover the in-flight case after a hard crash).
    pub trace: Option<PathBuf>,
    /// Scale factor applied to random case counts (VERIF_SCALE, default 1).
    pub scale: f64,
}

impl Ctx {
    /// Exhaustive bounds follow the tier, except in the (20x slower)
    /// unoptimised build, which keeps the quick bounds.
    pub fn quick(&self) -> bool {
        self.tier == Tier::Quick || self.profile == "dev"
    }
    pub fn pick<T>(&self, quick: T, thorough: T) -> T {
        if self.quick() {
            quick
        } else {
            thorough
        }
    }
    pub fn cases(&self, quick: u64, thorough: u64) -> u64 {
        let n = self.pick(quick, thorough) as f64 * self.scale;
        (n as u64).max(WORKERS)
    }
    pub fn overflow_checks(&self) -> bool {
        cfg!(debug_assertions)
    }
    pub fn is_open_known(&self, signature: &str) -> bool {
        self.known
            .iter()
            .any(|k| k.status == "open" && k.signature == signature)
    }
}

/// Why a case failed.
#[derive(Clone, Debug)]
pub struct Fail {
    /// The property this failure is attributed to (normally the running one).
    pub property: Option<String>,
    /// Short stable key naming the *kind* of failure; matched against the
    /// known-findings file.
    pub signature: String,
    pub message: String,
}

impl Fail {
    pub fn new(signature: &str, message: impl Into<String>) -> Fail {
        Fail {
            property: None,
            signature: signature.to_string(),
            message: message.into(),
        }
    }
    pub fn for_property(mut self, p: &str) -> Fail {
        self.property = Some(p.to_string());
        self
    }
}

#[macro_export]
macro_rules! fail {
    ($sig:expr, $($arg:tt)*) => {
        return Err($crate::engine::Fail::new($sig, format!($($arg)*)))
    };
}

#[macro_export]
macro_rules! ensure {
    ($cond:expr, $sig:expr, $($arg:tt)*) => {
        if !($cond) {
            return Err($crate::engine::Fail::new($sig, format!($($arg)*)));
        }
    };
}

/// Per-worker accumulator; merged at the end of a part.
#[derive(Default)]
pub struct Acc {
    pub evaluations: u64,
    /// Non-trivial cases that are distinct by construction (enumerations).
    pub nontrivial_counted: u64,
    /// Fingerprints of non-trivial cases from random generation.
    pub nontrivial_fp: HashSet<u64>,
    pub classes: BTreeMap<&'static str, u64>,
    pub samples: BTreeMap<&'static str, Vec<Value>>,
    pub known_hits: BTreeMap<String, (u64, Value)>,
    pub excluded_known: u64,
}

impl Acc {
    pub fn new() -> Acc {
        Acc::default()
    }
    #[inline]
    pub fn class(&mut self, name: &'static str) {
        *self.classes.entry(name).or_insert(0) += 1;
    }
    #[inline]
    pub fn class_n(&mut self, name: &'static str, n: u64) {
        *self.classes.entry(name).or_insert(0) += n;
    }
    #[inline]
    pub fn nontrivial(&mut self, fp: u64) {
        self.nontrivial_fp.insert(fp);
    }
    #[inline]
    pub fn nontrivial_enum(&mut self) {
        self.nontrivial_counted += 1;
    }
    /// Keeps the first two samples per class.
    #[inline]
    pub fn sample(&mut self, class: &'static str, f: impl FnOnce() -> Value) {
        let v = self.samples.entry(class).or_default();
        if v.len() < 2 {
            v.push(f());
        }
    }
    pub fn merge(mut self, other: Acc) -> Acc {
        self.evaluations += other.evaluations;
        self.nontrivial_counted += other.nontrivial_counted;
        if self.nontrivial_fp.len() < other.nontrivial_fp.len() {
            let mut o = other.nontrivial_fp;
            o.extend(self.nontrivial_fp.drain());
            self.nontrivial_fp = o;
        } else {
            self.nontrivial_fp.extend(other.nontrivial_fp);
        }
        for (k, v) in other.classes {
            *self.classes.entry(k).or_insert(0) += v;
        }
        for (k, v) in other.samples {
            let e = self.samples.entry(k).or_default();
            for s in v {
                if e.len() < 2 {
                    e.push(s);
                }
            }
        }
        for (k, (n, ex)) in other.known_hits {
            let e = self.known_hits.entry(k).or_insert((0, ex));
            e.0 += n;
        }
        self.excluded_known += other.excluded_known;
        self
    }
}

pub fn fp<T: Hash>(t: &T) -> u64 {
    let mut h = std::collections::hash_map::DefaultHasher::new();
    t.hash(&mut h);
    h.finish()
}

#[derive(Clone, Debug, Serialize)]
pub struct ViolationRec {
    pub property: String,
    pub check: String,
    pub signature: String,
    pub message: String,
    pub replay: String,
}

#[derive(Debug, Serialize)]
pub struct PartRec {
    pub name: String,
    pub kind: String,
    pub exhaustive: bool,
    pub evaluations: u64,
    pub distinct_nontrivial: u64,
    pub rule: String,
    pub classes: BTreeMap<String, u64>,
    pub samples: Vec<Value>,
    pub excluded_known: u64,
    pub wall_s: f64,
}

#[derive(Debug, Serialize, Default)]
pub struct Report {
    pub property: String,
    pub tier: String,
    pub seed: u64,
    pub profile: String,
    pub features: String,
    pub parts: Vec<PartRec>,
    pub violations: Vec<ViolationRec>,
    pub known_hits: Vec<Value>,
    pub assumptions: Vec<String>,
    pub notes: Vec<String>,
}

impl Report {
    pub fn assume(&mut self, s: &str) {
        if !self.assumptions.iter().any(|a| a == s) {
            self.assumptions.push(s.to_string());
        }
    }
    pub fn note(&mut self, s: impl Into<String>) {
        self.notes.push(s.into());
    }
}

thread_local! {
    static LAST_PANIC: RefCell<Option<String>> = const { RefCell::new(None) };
}

/// Installs a panic hook that records the message instead of printing it.
pub fn install_quiet_panic_hook() {
    panic::set_hook(Box::new(|info| {
        let msg = if let Some(s) = info.payload().downcast_ref::<&str>() {
            s.to_string()
        } else if let Some(s) = info.payload().downcast_ref::<String>() {
            s.clone()
        } else {
            "<non-string panic>".to_string()
        };
        let loc = info
            .location()
            .map(|l| format!("{}:{}", l.file(), l.line()))
            .unwrap_or_default();
        LAST_PANIC.with(|p| *p.borrow_mut() = Some(format!("{msg} @ {loc}")));
    }));
}

/// Runs `f`, turning a panic into `Err(message)`.
pub fn catch<R>(f: impl FnOnce() -> R) -> Result<R, String> {
    match panic::catch_unwind(AssertUnwindSafe(f)) {
        Ok(r) => Ok(r),
        Err(_) => Err(LAST_PANIC
            .with(|p| p.borrow_mut().take())
            .unwrap_or_else(|| "<panic>".to_string())),
    }
}

type CheckResult = Result<(), Fail>;

fn write_replay(
    ctx: &Ctx,
    property: &str,
    check: &str,
    fail: &Fail,
    case: &Value,
) -> String {
    let body = json!({
        "property": property,
        "running_property": ctx.property,
        "check": check,
        "signature": fail.signature,
        "message": fail.message,
        "profile": ctx.profile,
        "features": ctx.features,
        "seed": ctx.seed,
        "tier": if ctx.tier == Tier::Quick { "quick" } else { "thorough" },
        "case": case,
    });
    let text = serde_json::to_string_pretty(&body).unwrap();
    let h = fp(&(property, check, &fail.signature, case.to_string()));
    let dir = ctx.replay_dir.join(property);
    let _ = std::fs::create_dir_all(&dir);
    let path = dir.join(format!("{check}-{h:016x}.json"));
    let _ = std::fs::write(&path, text);
    path.to_string_lossy().into_owned()
}

thread_local! {
    /// (file, length of the longest line written so far)
    static TRACE_FILE: std::cell::RefCell<Option<(std::fs::File, usize)>> = const { std::cell::RefCell::new(None) };
}

/// Records the case about to be evaluated, so that the driver can name it if
/// the process dies.  Only the latest case is kept (the file is rewritten);
/// no fsync: data handed to the kernel survives the death of the process.
fn trace_case(ctx: &Ctx, check: &str, case: &impl Serialize) {
    if let Some(p) = &ctx.trace {
        use std::os::unix::fs::FileExt;
        TRACE_FILE.with(|cell| {
            let mut slot = cell.borrow_mut();
            if slot.is_none() {
                *slot = std::fs::OpenOptions::new().create(true).write(true).truncate(true).open(p).ok().map(|f| (f, 0));
            }
            if let Some((f, longest)) = slot.as_mut() {
                // one positioned write per case: the line, padded with blanks
                // over whatever a longer earlier line left behind
                let mut line = json!({"check": check, "case": case}).to_string();
                while line.len() < *longest {
                    line.push(' ');
                }
                *longest = line.len();
                line.push('\n');
                let _ = f.write_all_at(line.as_bytes(), 0);
            }
        });
    }
}

pub struct PartOut {
    pub acc: Acc,
    pub failure: Option<(Fail, Value)>,
}

/// Evaluates one case with panic capture; an escaped panic of the *harness*
/// or the library is reported as a failure with signature "panic".
fn eval<T>(
    ctx: &Ctx,
    check: &(impl Fn(&Ctx, &T, &mut Acc) -> CheckResult + Sync),
    case: &T,
    acc: &mut Acc,
) -> CheckResult {
    match catch(|| check(ctx, case, acc)) {
        Ok(r) => r,
        Err(msg) => Err(Fail::new("panic", format!("panic: {msg}"))),
    }
}

fn finish_part(
    ctx: &Ctx,
    rep: &mut Report,
    name: &str,
    kind: &str,
    exhaustive: bool,
    rule: &str,
    out: PartOut,
    t0: std::time::Instant,
) {
    let PartOut { acc, failure } = out;
    if let Some((fail, case)) = failure {
        let property = fail
            .property
            .clone()
            .unwrap_or_else(|| ctx.property.clone());
        let replay = write_replay(ctx, &property, name, &fail, &case);
        rep.violations.push(ViolationRec {
            property,
            check: name.to_string(),
            signature: fail.signature.clone(),
            message: fail.message.clone(),
            replay,
        });
    }
    for (sig, (n, ex)) in &acc.known_hits {
        let what = ctx
            .known
            .iter()
            .find(|k| &k.signature == sig)
            .map(|k| k.what.clone())
            .unwrap_or_default();
        let prop = ctx
            .known
            .iter()
            .find(|k| &k.signature == sig)
            .map(|k| k.property.clone())
            .unwrap_or_else(|| ctx.property.clone());
        rep.known_hits.push(json!({
            "property": prop, "signature": sig, "what": what,
            "count": n, "check": name, "example": ex,
        }));
    }
    let mut samples = Vec::new();
    for (class, v) in &acc.samples {
        for s in v {
            samples.push(json!({"part": name, "class": class, "case": s}));
        }
    }
    rep.parts.push(PartRec {
        name: name.to_string(),
        kind: kind.to_string(),
        exhaustive,
        evaluations: acc.evaluations,
        distinct_nontrivial: acc.nontrivial_counted
            + acc.nontrivial_fp.len() as u64,
        rule: rule.to_string(),
        classes: acc
            .classes
            .iter()
            .map(|(k, v)| (k.to_string(), *v))
            .collect(),
        samples,
        excluded_known: acc.excluded_known,
        wall_s: t0.elapsed().as_secs_f64(),
    });
}

/// Handles a failing case inside a worker: known findings are tolerated and
/// counted, anything else stops the part.
fn triage(
    ctx: &Ctx,
    acc: &mut Acc,
    fail: Fail,
    case: impl FnOnce() -> Value,
) -> Option<(Fail, Value)> {
    if ctx.is_open_known(&fail.signature) && ctx.replay.is_none() {
        let e = acc
            .known_hits
            .entry(fail.signature.clone())
            .or_insert_with(|| (0, json!({"case": case(), "message": fail.message})));
        e.0 += 1;
        None
    } else {
        Some((fail, case()))
    }
}

fn replay_single<T: DeserializeOwned + Serialize>(
    ctx: &Ctx,
    check: &(impl Fn(&Ctx, &T, &mut Acc) -> CheckResult + Sync),
) -> PartOut {
    let r = ctx.replay.as_ref().unwrap();
    let mut acc = Acc::new();
    let case: T = match serde_json::from_value(r.case.clone()) {
        Ok(c) => c,
        Err(e) => {
            return PartOut {
                acc,
                failure: Some((
                    Fail::new("replay-decode", format!("cannot decode case: {e}")),
                    r.case.clone(),
                )),
            }
        }
    };
    acc.evaluations = 1;
    let failure = eval(ctx, check, &case, &mut acc)
        .err()
        .map(|f| (f, r.case.clone()));
    PartOut { acc, failure }
}

fn skip_for_replay(ctx: &Ctx, name: &str) -> Option<bool> {
    // None: not replaying; Some(true): replay this part; Some(false): skip.
    ctx.replay.as_ref().map(|r| r.check == name)
}

/// Exhaustive enumeration: `nchunks` independent chunks, each producing an
/// iterator of cases.  Chunks run in parallel; order inside a chunk is kept, so
/// the reported failing case is the first of the lowest failing chunk.
pub fn run_enum_chunks<T, I>(
    ctx: &Ctx,
    rep: &mut Report,
    name: &str,
    rule: &str,
    exhaustive: bool,
    nchunks: usize,
    chunk: impl Fn(usize) -> I + Sync,
    check: impl Fn(&Ctx, &T, &mut Acc) -> CheckResult + Sync,
) where
    T: Serialize + DeserializeOwned + Send,
    I: Iterator<Item = T>,
{
    let t0 = std::time::Instant::now();
    match skip_for_replay(ctx, name) {
        Some(false) => return,
        Some(true) => {
            let out = replay_single::<T>(ctx, &check);
            finish_part(ctx, rep, name, "replay", false, rule, out, t0);
            return;
        }
        None => {}
    }
    let stop = std::sync::atomic::AtomicUsize::new(usize::MAX);
    let results: Vec<(usize, PartOut)> = map_indices(nchunks as u64, |c| {
            let c = c as usize;
            let mut acc = Acc::new();
            let mut failure = None;
            for case in chunk(c) {
                if stop.load(std::sync::atomic::Ordering::Relaxed) < c {
                    break;
                }
                if ctx.trace.is_some() {
                    trace_case(ctx, name, &case);
                }
                acc.evaluations += 1;
                if let Err(f) = eval(ctx, &check, &case, &mut acc) {
                    if let Some(x) = triage(ctx, &mut acc, f, || {
                        serde_json::to_value(&case).unwrap()
                    }) {
                        failure = Some(x);
                        stop.fetch_min(c, std::sync::atomic::Ordering::Relaxed);
                        break;
                    }
                }
            }
            (c, PartOut { acc, failure })
        });
    let mut acc = Acc::new();
    let mut failure = None;
    for (_, out) in results {
        acc = acc.merge(out.acc);
        if failure.is_none() {
            failure = out.failure;
        }
    }
    finish_part(
        ctx,
        rep,
        name,
        "enumeration",
        exhaustive,
        rule,
        PartOut { acc, failure },
        t0,
    );
}

/// Enumeration over an explicit list of cases.
pub fn run_list<T>(
    ctx: &Ctx,
    rep: &mut Report,
    name: &str,
    rule: &str,
    exhaustive: bool,
    cases: Vec<T>,
    check: impl Fn(&Ctx, &T, &mut Acc) -> CheckResult + Sync,
) where
    T: Serialize + DeserializeOwned + Send + Sync + Clone,
{
    let n = cases.len();
    let nchunks = (WORKERS as usize * 4).min(n.max(1));
    let per = n.div_ceil(nchunks.max(1)).max(1);
    let cases_ref = &cases;
    run_enum_chunks(
        ctx,
        rep,
        name,
        rule,
        exhaustive,
        nchunks,
        move |c| {
            let lo = (c * per).min(n);
            let hi = ((c + 1) * per).min(n);
            cases_ref[lo..hi].iter().cloned()
        },
        check,
    );
}

/// Random structured generation with shrinking.  `cases` is split over a
/// fixed number of workers, each with its own deterministic RNG derived from
/// the seed, so a run is a pure function of (tree, seed, tier).
pub fn run_prop<T, S>(
    ctx: &Ctx,
    rep: &mut Report,
    name: &str,
    rule: &str,
    cases: u64,
    strategy: impl Fn() -> S + Sync,
    check: impl Fn(&Ctx, &T, &mut Acc) -> CheckResult + Sync,
) where
    T: Serialize + DeserializeOwned + Debug + Send,
    S: Strategy<Value = T>,
{
    let t0 = std::time::Instant::now();
    match skip_for_replay(ctx, name) {
        Some(false) => return,
        Some(true) => {
            let out = replay_single::<T>(ctx, &check);
            finish_part(ctx, rep, name, "replay", false, rule, out, t0);
            return;
        }
        None => {}
    }
    let per_worker = cases.div_ceil(WORKERS).max(1);
    let name_fp = fp(&name);
    let results: Vec<PartOut> = map_indices(WORKERS, |w| {
            let config = Config {
                cases: per_worker as u32,
                failure_persistence: None,
                rng_seed: RngSeed::Fixed(
                    ctx.seed
                        .wrapping_mul(0x9E37_79B9_7F4A_7C15)
                        .wrapping_add(w.wrapping_mul(0xD1B5_4A32_D192_ED03))
                        ^ name_fp,
                ),
                max_shrink_iters: 200_000,
                max_shrink_time: 20_000,
                max_global_rejects: 1 << 20,
                max_local_rejects: 1 << 20,
                verbose: 0,
                ..Config::default()
            };
            let mut runner = TestRunner::new(config);
            let acc = RefCell::new(Acc::new());
            let scratch = RefCell::new(Acc::new());
            let failed = Cell::new(false);
            let strat = strategy();
            let result = runner.run(&strat, |case| {
                let mut a = if failed.get() {
                    scratch.borrow_mut()
                } else {
                    acc.borrow_mut()
                };
                if !failed.get() {
                    if ctx.trace.is_some() {
                        trace_case(ctx, name, &case);
                    }
                    a.evaluations += 1;
                }
                match eval(ctx, &check, &case, &mut a) {
                    Ok(()) => Ok(()),
                    Err(f) => {
                        if ctx.is_open_known(&f.signature) {
                            if !failed.get() {
                                let _ = triage(ctx, &mut a, f, || {
                                    serde_json::to_value(&case).unwrap()
                                });
                            }
                            Ok(())
                        } else {
                            failed.set(true);
                            Err(TestCaseError::fail(f.message))
                        }
                    }
                }
            });
            let mut acc = acc.into_inner();
            let failure = match result {
                Ok(()) => None,
                Err(TestError::Fail(reason, minimal)) => {
                    let mut tmp = Acc::new();
                    let f = eval(ctx, &check, &minimal, &mut tmp).err().unwrap_or_else(
                        || Fail::new("flaky", format!("shrunk case passes on re-run; original: {reason}")),
                    );
                    Some((f, serde_json::to_value(&minimal).unwrap()))
                }
                Err(TestError::Abort(reason)) => {
                    acc.class("ABORTED");
                    Some((
                        Fail::new("harness-abort", format!("proptest aborted: {reason}")),
                        Value::Null,
                    ))
                }
            };
            PartOut { acc, failure }
        });
    let mut acc = Acc::new();
    let mut failure: Option<(Fail, Value)> = None;
    for out in results {
        acc = acc.merge(out.acc);
        if let Some(f) = out.failure {
            // keep the smallest shrunk case across workers
            let better = match &failure {
                None => true,
                Some((_, v)) => f.1.to_string().len() < v.to_string().len(),
            };
            if better {
                failure = Some(f);
            }
        }
    }
    finish_part(
        ctx,
        rep,
        name,
        "random+shrink",
        false,
        rule,
        PartOut { acc, failure },
        t0,
    );
}
