//! Conversions between the crate's `Packet` and the reference `Msg`, using
//! only the public API.

use std::collections::LinkedList;

use coap_lite::{CoapOption, MessageClass, MessageType, Packet};

use crate::refmodel::wire::Msg;

pub fn mtype_from(n: u8) -> MessageType {
    match n & 3 {
        0 => MessageType::Confirmable,
        1 => MessageType::NonConfirmable,
        2 => MessageType::Acknowledgement,
        _ => MessageType::Reset,
    }
}

pub fn mtype_to(t: MessageType) -> u8 {
    match t {
        MessageType::Confirmable => 0,
        MessageType::NonConfirmable => 1,
        MessageType::Acknowledgement => 2,
        MessageType::Reset => 3,
    }
}

/// Reads a packet through its public getters.
pub fn to_msg(p: &Packet) -> Msg {
    let mut options = Vec::new();
    for (num, list) in p.options() {
        for v in list.iter() {
            options.push((*num, v.clone()));
        }
    }
    Msg {
        version: p.header.get_version(),
        mtype: mtype_to(p.header.get_type()),
        token: p.get_token().to_vec(),
        code: u8::from(p.header.code),
        mid: p.header.message_id,
        options,
        payload: p.payload.clone(),
    }
}

/// Builds a packet in the canonical order: header fields, token, options in
/// model order, payload.
pub fn from_msg(m: &Msg) -> Packet {
    let mut p = Packet::new();
    p.header.set_version(m.version);
    p.header.set_type(mtype_from(m.mtype));
    p.header.code = MessageClass::from(m.code);
    p.header.message_id = m.mid;
    p.set_token(m.token.clone());
    for (n, v) in &m.options {
        p.add_option(CoapOption::from(*n), v.clone());
    }
    p.payload = m.payload.clone();
    p
}

pub fn list_of(values: &[Vec<u8>]) -> LinkedList<Vec<u8>> {
    values.iter().cloned().collect()
}

pub fn hex(b: &[u8]) -> String {
    let mut s = String::with_capacity(b.len() * 2);
    let show = b.len().min(96);
    for x in &b[..show] {
        s.push_str(&format!("{x:02x}"));
    }
    if b.len() > show {
        s.push_str(&format!("..(+{} bytes)", b.len() - show));
    }
    s
}

/// Position of the first difference, for messages.
pub fn first_diff(a: &[u8], b: &[u8]) -> String {
    let n = a.len().min(b.len());
    for i in 0..n {
        if a[i] != b[i] {
            return format!(
                "first difference at byte {i}: {:02x} vs {:02x} (lengths {} vs {})",
                a[i],
                b[i],
                a.len(),
                b.len()
            );
        }
    }
    format!("common prefix of {n} bytes, lengths {} vs {}", a.len(), b.len())
}
