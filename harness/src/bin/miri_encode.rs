//! Small deterministic family of messages pushed through the encoder and the
//! decoder, meant to be run under Miri (`cargo +nightly miri run --bin
//! miri_encode`): Miri reports out-of-bounds raw-pointer copies, `set_len`
//! beyond the initialised part, and any read of an uninitialised byte when
//! the output is compared with the reference image.  Plain loops, no threads,
//! no randomness, so the interpreter finishes in about a minute.

use clv::pkt::from_msg;
use clv::refmodel::wire::Msg;
use coap_lite::Packet;

fn val(len: usize, seed: u8) -> Vec<u8> {
    (0..len).map(|i| seed.wrapping_add(i as u8)).collect()
}

fn main() {
    let deltas: [u32; 8] = [0, 1, 12, 13, 14, 268, 269, 300];
    let lens: [usize; 8] = [0, 1, 12, 13, 14, 268, 269, 300];
    let mut cases = 0u32;
    let mut failures = 0u32;
    for tkl in [0usize, 1, 8] {
        for &d1 in &deltas {
            for &l1 in &lens {
                for second in [None, Some((0u32, 0usize)), Some((13, 13)), Some((269, 269)), Some((1, 300))] {
                    for plen in [0usize, 3] {
                        // thin the grid: keep every combination of the first
                        // option, rotate the others
                        if (d1 as usize + l1 + tkl + plen) % 3 != 0 && second.is_some() {
                            continue;
                        }
                        let mut options = vec![(d1 as u16, val(l1, 1))];
                        if let Some((d2, l2)) = second {
                            options.push(((d1 + d2) as u16, val(l2, 2)));
                        }
                        let m = Msg {
                            version: 1,
                            mtype: (cases % 4) as u8,
                            token: val(tkl, 9),
                            code: if cases % 7 == 0 { 0 } else { 0x45 },
                            mid: cases as u16,
                            options,
                            payload: val(plen, 7),
                        };
                        let reference = m.encode().expect("reference");
                        let alt = m.encode_with_payload_always().expect("reference");
                        let p = from_msg(&m);
                        let outs = [
                            p.to_bytes_unlimited(),
                            p.to_bytes_with_limit(reference.len().max(alt.len())),
                            p.to_bytes_with_limit(usize::MAX),
                        ];
                        for out in outs {
                            match out {
                                Ok(b) => {
                                    // comparing touches every byte of the output
                                    if b != reference && b != alt {
                                        failures += 1;
                                        eprintln!("case {cases}: output differs from the reference image");
                                    }
                                    match Packet::from_bytes(&b) {
                                        Ok(q) => {
                                            if q.get_token() != &m.token[..] {
                                                failures += 1;
                                                eprintln!("case {cases}: token differs after decode");
                                            }
                                        }
                                        Err(e) => {
                                            failures += 1;
                                            eprintln!("case {cases}: own encoding rejected: {e:?}");
                                        }
                                    }
                                }
                                Err(e) => {
                                    failures += 1;
                                    eprintln!("case {cases}: refused: {e:?}");
                                }
                            }
                        }
                        if reference.len() > 3 {
                            let _ = p.to_bytes_with_limit(reference.len() - 1);
                        }
                        cases += 1;
                    }
                }
            }
        }
    }
    println!("miri_encode: {cases} messages, {failures} failures");
    if failures > 0 {
        std::process::exit(1);
    }
}
