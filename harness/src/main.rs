use std::path::PathBuf;

use clv::engine::*;

fn usage() -> ! {
    eprintln!("usage: clv run <ID> [--tier quick|thorough] [--seed N] [--report PATH] [--replay FILE] [--trace PATH] [--known FILE] [--replay-dir DIR]");
    std::process::exit(2)
}

fn main() {
    let args: Vec<String> = std::env::args().collect();
    if args.len() >= 5 && args[1] == "fuzz-replay" {
        // clv fuzz-replay <target> <property> <file>: re-judge a fuzzer artifact
        install_quiet_panic_hook();
        let data = std::fs::read(&args[4]).unwrap_or_else(|e| {
            eprintln!("cannot read {}: {e}", args[4]);
            std::process::exit(2)
        });
        let r = catch(|| clv::fuzzdec::fuzz_one(&args[2], &args[3], &data));
        match r {
            Ok(Ok(())) => {
                println!("fuzz-replay: input passes the oracle");
                std::process::exit(0)
            }
            Ok(Err(f)) if f.signature == "harness" => {
                eprintln!("fuzz-replay: harness problem: {}", f.message);
                std::process::exit(2)
            }
            Ok(Err(f)) => {
                println!("fuzz-replay: violation [{}] {}", f.signature, f.message);
                std::process::exit(1)
            }
            Err(msg) => {
                println!("fuzz-replay: panic outside panic capture: {msg}");
                std::process::exit(1)
            }
        }
    }
    if args.len() < 3 || args[1] != "run" {
        usage();
    }
    let property = args[2].clone();
    let mut tier = Tier::Quick;
    let mut seed: u64 = 20261002;
    let mut report: Option<PathBuf> = None;
    let mut replay: Option<PathBuf> = None;
    let mut trace: Option<PathBuf> = None;
    let mut known_file = PathBuf::from("/verif/known_findings.txt");
    let mut replay_dir = PathBuf::from("/verif/replays");
    let mut i = 3;
    while i < args.len() {
        let need = |i: usize| -> String {
            args.get(i + 1).cloned().unwrap_or_else(|| usage())
        };
        match args[i].as_str() {
            "--tier" => {
                tier = match need(i).as_str() {
                    "quick" => Tier::Quick,
                    "thorough" => Tier::Thorough,
                    _ => usage(),
                };
                i += 2;
            }
            "--seed" => {
                seed = need(i).parse().unwrap_or_else(|_| usage());
                i += 2;
            }
            "--report" => {
                report = Some(need(i).into());
                i += 2;
            }
            "--replay" => {
                replay = Some(need(i).into());
                i += 2;
            }
            "--trace" => {
                trace = Some(need(i).into());
                i += 2;
            }
            "--known" => {
                known_file = need(i).into();
                i += 2;
            }
            "--replay-dir" => {
                replay_dir = need(i).into();
                i += 2;
            }
            _ => usage(),
        }
    }
    let mut known = Vec::new();
    if let Ok(text) = std::fs::read_to_string(&known_file) {
        for line in text.lines() {
            let line = line.trim();
            let (status, rest) = if let Some(r) = line.strip_prefix("open:") {
                ("open", r.trim())
            } else if let Some(r) = line.strip_prefix("fixed:") {
                ("fixed", r.trim())
            } else {
                continue;
            };
            let mut property = String::new();
            let mut signature = String::new();
            let mut what = Vec::new();
            for tok in rest.split_whitespace() {
                if property.is_empty() && tok.starts_with("property=") {
                    property = tok["property=".len()..].to_string();
                } else if status == "open" && signature.is_empty() && tok.starts_with("signature=") {
                    signature = tok["signature=".len()..].to_string();
                } else {
                    what.push(tok);
                }
            }
            if property.is_empty() || (status == "open" && signature.is_empty()) {
                eprintln!("bad known-findings line: {line}");
                std::process::exit(2);
            }
            known.push(KnownFinding {
                status: status.to_string(),
                property,
                signature,
                what: what.join(" "),
                commit: None,
            });
        }
    }
    let replay = replay.map(|p| {
        let text = std::fs::read_to_string(&p).unwrap_or_else(|e| {
            eprintln!("cannot read replay file {}: {e}", p.display());
            std::process::exit(2)
        });
        let v: serde_json::Value = serde_json::from_str(&text).unwrap_or_else(|e| {
            eprintln!("cannot parse replay file: {e}");
            std::process::exit(2)
        });
        Replay {
            check: v["check"].as_str().unwrap_or("").to_string(),
            case: v["case"].clone(),
        }
    });
    let scale = std::env::var("VERIF_SCALE")
        .ok()
        .and_then(|s| s.parse::<f64>().ok())
        .unwrap_or(1.0);
    let profile = if std::env::var("CLV_DEV_BOUNDS").is_ok() {
        "dev"
    } else if cfg!(debug_assertions) {
        "checked"
    } else {
        "wrapping"
    };
    let mut features = Vec::new();
    if cfg!(feature = "std") {
        features.push("std");
    }
    if cfg!(feature = "udp") {
        features.push("udp");
    }
    if cfg!(feature = "hooks") {
        features.push("hooks");
    }
    let ctx = Ctx {
        property: property.clone(),
        tier,
        seed,
        profile: profile.to_string(),
        features: features.join("+"),
        replay,
        known,
        replay_dir,
        trace,
        scale,
    };
    install_quiet_panic_hook();
    let threads = std::env::var("CLV_THREADS")
        .ok()
        .and_then(|s| s.parse::<usize>().ok())
        .unwrap_or(16);
    if !sequential() {
        rayon::ThreadPoolBuilder::new()
            .num_threads(threads)
            .stack_size(
                std::env::var("CLV_STACK_MB")
                    .ok()
                    .and_then(|s| s.parse::<usize>().ok())
                    .unwrap_or(16)
                    << 20,
            )
            .build_global()
            .ok();
    }
    let mut rep = Report {
        property: property.clone(),
        tier: if ctx.tier == Tier::Quick { "quick" } else { "thorough" }.to_string(),
        seed,
        profile: ctx.profile.clone(),
        features: ctx.features.clone(),
        ..Default::default()
    };
    let t0 = std::time::Instant::now();
    if !clv::props::dispatch(&ctx, &mut rep) {
        eprintln!("unknown or unavailable property {property} in this build");
        std::process::exit(2);
    }
    let wall = t0.elapsed().as_secs_f64();
    let mut v = serde_json::to_value(&rep).unwrap();
    v["wall_s"] = serde_json::json!(wall);
    let text = serde_json::to_string_pretty(&v).unwrap();
    match report {
        Some(p) => std::fs::write(&p, text).expect("write report"),
        None => println!("{text}"),
    }
    for viol in &rep.violations {
        eprintln!(
            "[{}/{}] violation property={} check={} sig={} :: {}",
            ctx.profile, ctx.features, viol.property, viol.check, viol.signature, viol.message
        );
    }
    std::process::exit(if rep.violations.is_empty() { 0 } else { 1 });
}
