#[cfg(feature = "std")]
pub mod blockwise;
pub mod engine;
pub mod fuzzdec;
pub mod gen;
pub mod pkt;
pub mod props;
pub mod refmodel;
