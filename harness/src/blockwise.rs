//! Simulated peers around the real `BlockHandler`: a request builder, an
//! application stub, and the calling protocol of the in-crate
//! `TestServerHarness` (the only caller in the repository).  Every message
//! crosses the boundary as encoded bytes.

use coap_lite::error::HandlingError;
use coap_lite::{
    BlockHandler, BlockHandlerConfig, CoapOption, CoapRequest, MessageClass,
    Packet,
};
use serde::{Deserialize, Serialize};

use crate::engine::catch;
use crate::pkt::*;
use crate::props::c01::min_uint;
use crate::refmodel::wire::{parse, Msg, Verdict};

pub const OPT_BLOCK2: u16 = 23;
pub const OPT_BLOCK1: u16 = 27;
pub const OPT_URI_PATH: u16 = 11;

pub fn block_bytes(num: u32, more: bool, szx: u8) -> Vec<u8> {
    min_uint((num as u64) << 4 | (more as u64) << 3 | (szx & 7) as u64)
}

#[derive(Clone, Copy, Debug, PartialEq, Eq)]
pub struct Block {
    pub num: u32,
    pub more: bool,
    pub szx: u8,
}

impl Block {
    pub fn size(&self) -> usize {
        1usize << (self.szx + 4)
    }
}

pub fn parse_block(b: &[u8]) -> Option<Block> {
    if b.len() > 3 {
        return None;
    }
    let v = b.iter().fold(0u32, |a, &x| a << 8 | x as u32);
    Some(Block {
        num: v >> 4,
        more: v & 8 != 0,
        szx: (v & 7) as u8,
    })
}

pub fn find_opt<'a>(m: &'a Msg, num: u16) -> Option<&'a Vec<u8>> {
    m.options.iter().find(|o| o.0 == num).map(|o| &o.1)
}

pub fn opts_without(m: &Msg, nums: &[u16]) -> Vec<(u16, Vec<u8>)> {
    m.options
        .iter()
        .filter(|o| !nums.contains(&o.0))
        .cloned()
        .collect()
}

/// A request as the client builds it.
#[derive(Clone, Debug, PartialEq, Eq, Hash, Serialize, Deserialize)]
pub struct ReqSpec {
    pub mtype: u8,
    pub token: Vec<u8>,
    pub mid: u16,
    pub method: u8,
    pub path: Vec<Vec<u8>>,
    /// further options (number, value), any numbers
    pub extra: Vec<(u16, Vec<u8>)>,
    pub block1: Option<Vec<u8>>,
    pub block2: Option<Vec<u8>>,
    pub payload: Vec<u8>,
}

impl ReqSpec {
    pub fn msg(&self) -> Msg {
        let mut m = Msg {
            version: 1,
            mtype: self.mtype & 3,
            token: self.token.iter().copied().take(8).collect(),
            code: self.method,
            mid: self.mid,
            options: vec![],
            payload: self.payload.clone(),
        };
        for s in &self.path {
            m.options.push((OPT_URI_PATH, s.clone()));
        }
        for (n, v) in &self.extra {
            m.options.push((*n, v.clone()));
        }
        if let Some(b) = &self.block1 {
            m.options.push((OPT_BLOCK1, b.clone()));
        }
        if let Some(b) = &self.block2 {
            m.options.push((OPT_BLOCK2, b.clone()));
        }
        m.sort_options();
        m
    }
    /// Encoded size without payload and marker (what the handler measures).
    pub fn overhead(&self) -> usize {
        let mut m = self.msg();
        m.payload.clear();
        m.wire_len().unwrap_or(usize::MAX)
    }
}

/// What the application puts into the prepared response.
#[derive(Clone, Debug, PartialEq, Eq, Hash, Serialize, Deserialize)]
pub struct AppSpec {
    pub code: u8,
    pub options: Vec<(u16, Vec<u8>)>,
    pub body: Vec<u8>,
}

impl AppSpec {
    pub fn sorted_options(&self) -> Vec<(u16, Vec<u8>)> {
        let mut o = self.options.clone();
        o.sort_by_key(|x| x.0);
        o
    }
    /// Encoded size of the reply without payload, marker and Block2 option,
    /// for a reply to `req` (ACK/NON, same token).
    pub fn overhead(&self, token_len: usize) -> usize {
        let m = Msg {
            version: 1,
            mtype: 2,
            token: vec![0; token_len.min(8)],
            code: self.code,
            mid: 0,
            options: self.sorted_options(),
            payload: vec![],
        };
        m.wire_len().unwrap_or(usize::MAX)
    }
}

#[derive(Clone, Debug)]
pub struct ErrInfo {
    pub code: Option<u8>,
    pub message: String,
}

#[derive(Clone, Debug)]
pub enum Step {
    Ok(bool),
    Err(ErrInfo),
    Panic(String),
}

#[derive(Clone, Debug)]
pub struct Outcome {
    pub intercept_request: Step,
    pub app_called: bool,
    /// payload of the request as the application saw it
    pub app_saw: Option<Vec<u8>>,
    /// options of the prepared response as the application saw them
    pub app_saw_response_options: Option<Vec<(u16, Vec<u8>)>>,
    pub intercept_response: Option<Step>,
    /// whether apply_from_error was called and what it returned
    pub error_applied: Option<bool>,
    pub had_prepared_response: bool,
    /// the response that would be sent, encoded without limit
    pub response_bytes: Option<Vec<u8>>,
    pub response: Option<Msg>,
    /// problems of the harness side (request did not parse, response did not
    /// encode / parse)
    pub trouble: Option<String>,
}

impl Outcome {
    pub fn panicked(&self) -> Option<&str> {
        if let Step::Panic(m) = &self.intercept_request {
            return Some(m);
        }
        if let Some(Step::Panic(m)) = &self.intercept_response {
            return Some(m);
        }
        None
    }
    pub fn served_by_handler(&self) -> bool {
        matches!(self.intercept_request, Step::Ok(true))
    }
}

fn err_info(e: &HandlingError) -> ErrInfo {
    ErrInfo {
        code: e.code.map(|c| u8::from(MessageClass::Response(c))),
        message: e.message.clone(),
    }
}

pub fn new_handler<E: Ord + Clone>(budget: usize, expiry: std::time::Duration) -> BlockHandler<E> {
    BlockHandler::new(BlockHandlerConfig {
        max_total_message_size: budget,
        cache_expiry_duration: expiry,
    })
}

pub const HOUR: std::time::Duration = std::time::Duration::from_secs(3600);

/// One request/response exchange following the calling protocol:
/// intercept_request; on Ok(true) send; on Ok(false) run the application, then
/// intercept_response and send; on Err apply_from_error and send if it
/// returned true.
pub fn exchange<E: Ord + Clone>(
    handler: &mut BlockHandler<E>,
    request: &[u8],
    source: E,
    app: &mut dyn FnMut(&CoapRequest<E>) -> Option<AppSpec>,
) -> Outcome {
    let mut out = Outcome {
        intercept_request: Step::Ok(false),
        app_called: false,
        app_saw: None,
        app_saw_response_options: None,
        intercept_response: None,
        error_applied: None,
        had_prepared_response: false,
        response_bytes: None,
        response: None,
        trouble: None,
    };
    let packet = match Packet::from_bytes(request) {
        Ok(p) => p,
        Err(e) => {
            out.trouble = Some(format!("request did not parse: {e:?}"));
            return out;
        }
    };
    let mut req = CoapRequest::from_packet(packet, source);
    out.had_prepared_response = req.response.is_some();
    let r = catch(|| handler.intercept_request(&mut req));
    let mut send = false;
    match r {
        Err(msg) => {
            out.intercept_request = Step::Panic(msg);
            return out;
        }
        Ok(Ok(true)) => {
            out.intercept_request = Step::Ok(true);
            send = true;
        }
        Ok(Ok(false)) => {
            out.intercept_request = Step::Ok(false);
            out.app_called = true;
            out.app_saw = Some(req.message.payload.clone());
            out.app_saw_response_options =
                req.response.as_ref().map(|r| to_msg(&r.message).options);
            let spec = app(&req);
            if let (Some(spec), Some(resp)) = (spec, req.response.as_mut()) {
                resp.message.header.code = MessageClass::from(spec.code);
                for (n, v) in &spec.options {
                    resp.message.add_option(CoapOption::from(*n), v.clone());
                }
                resp.message.payload = spec.body.clone();
            }
            match catch(|| handler.intercept_response(&mut req)) {
                Err(msg) => {
                    out.intercept_response = Some(Step::Panic(msg));
                    return out;
                }
                Ok(Ok(b)) => {
                    out.intercept_response = Some(Step::Ok(b));
                    send = true;
                }
                Ok(Err(e)) => {
                    out.intercept_response = Some(Step::Err(err_info(&e)));
                    let applied = req.apply_from_error(e);
                    out.error_applied = Some(applied);
                    send = applied;
                }
            }
        }
        Ok(Err(e)) => {
            out.intercept_request = Step::Err(err_info(&e));
            let applied = req.apply_from_error(e);
            out.error_applied = Some(applied);
            send = applied;
        }
    }
    if send {
        if let Some(resp) = &req.response {
            match catch(|| resp.message.to_bytes_unlimited()) {
                Ok(Ok(bytes)) => {
                    match parse(&bytes).0 {
                        Verdict::MustAccept(m) | Verdict::Either(m, _) => {
                            out.response = Some(m)
                        }
                        Verdict::MustReject(why) => {
                            out.trouble = Some(format!(
                                "response is not a well-formed message ({why}): {}",
                                hex(&bytes)
                            ))
                        }
                    }
                    out.response_bytes = Some(bytes);
                }
                other => {
                    out.trouble =
                        Some(format!("response did not encode: {other:?}"))
                }
            }
        }
    }
    out
}

/// Body bytes that depend on position and seed so that misplaced, missing or
/// stale blocks are visible; never zero (zero-fill is what a gap looks like).
pub fn body(len: usize, seed: u8) -> Vec<u8> {
    (0..len)
        .map(|i| {
            let x = (seed as usize)
                .wrapping_mul(131)
                .wrapping_add(i.wrapping_mul(29))
                .wrapping_add(i >> 7) as u8;
            if x == 0 {
                0xA5
            } else {
                x
            }
        })
        .collect()
}
