//! Byte-level entry points for coverage-guided fuzzing: the fuzzer's bytes are
//! decoded by hand (`arbitrary::Unstructured`) into the same case types the
//! property-based parts use, and judged by the same oracles.

use arbitrary::Unstructured;

use crate::engine::{Acc, Ctx, Fail, Tier};
use crate::gen::wire::Blob;
use crate::props::c01::{Op, Script};

pub fn fuzz_ctx(property: &str) -> Ctx {
    Ctx {
        property: property.to_string(),
        tier: Tier::Thorough,
        seed: 0,
        profile: "fuzz".into(),
        features: "std".into(),
        replay: None,
        known: vec![],
        replay_dir: "/verif/replays".into(),
        trace: None,
        scale: 1.0,
    }
}

fn blob(u: &mut Unstructured) -> arbitrary::Result<Blob> {
    let kind: u8 = u.arbitrary()?;
    Ok(match kind % 8 {
        0 => {
            let pts = [12u32, 13, 14, 268, 269, 270, 1279, 65535, 65536, 65803, 65804];
            let i = u.int_in_range(0..=pts.len() - 1)?;
            Blob::Pat { len: pts[i], seed: u.arbitrary()? }
        }
        1 => Blob::Pat { len: u.int_in_range(0..=700)?, seed: u.arbitrary()? },
        _ => {
            let n = u.int_in_range(0..=16)?;
            Blob::Lit(u.bytes(n)?.to_vec())
        }
    })
}

fn optnum(u: &mut Unstructured) -> arbitrary::Result<u16> {
    let kind: u8 = u.arbitrary()?;
    Ok(match kind % 6 {
        0 => {
            let pts = [0u16, 1, 11, 12, 13, 14, 23, 27, 258, 268, 269, 270, 525, 65535];
            pts[u.int_in_range(0..=pts.len() - 1)?]
        }
        1 => u.arbitrary()?,
        _ => u.int_in_range(0..=40)?,
    })
}

pub fn script(data: &[u8]) -> arbitrary::Result<Script> {
    let mut u = Unstructured::new(data);
    let n = u.int_in_range(0..=14)?;
    let mut ops = Vec::new();
    for _ in 0..n {
        let k: u8 = u.arbitrary()?;
        ops.push(match k % 14 {
            0 => Op::Version(u.int_in_range(0..=3)?),
            1 => Op::Type(u.int_in_range(0..=3)?),
            2 => {
                let l = u.int_in_range(0..=8)?;
                Op::Token(u.bytes(l)?.to_vec())
            }
            3 => Op::CodeByte(u.arbitrary()?),
            4 => Op::CodeStr(u.arbitrary()?),
            5 => Op::Mid(u.arbitrary()?),
            6 | 7 | 8 => Op::Add(optnum(&mut u)?, blob(&mut u)?),
            9 => Op::AddU32(optnum(&mut u)?, u.arbitrary()?),
            10 => {
                let n = optnum(&mut u)?;
                let k = u.int_in_range(0..=2)?;
                let mut l = Vec::new();
                for _ in 0..k {
                    l.push(blob(&mut u)?);
                }
                Op::Set(n, l)
            }
            11 => Op::Clear(optnum(&mut u)?),
            12 => Op::Payload(blob(&mut u)?),
            _ => {
                if u.ratio(1, 8)? {
                    Op::ClearAll
                } else {
                    Op::CodeReqUnknown
                }
            }
        });
    }
    Ok(Script { ops })
}

#[cfg(feature = "std")]
pub fn hostile(data: &[u8]) -> arbitrary::Result<crate::props::c11::Seq> {
    use crate::props::c11::*;
    let mut u = Unstructured::new(data);
    let budget_kind: u8 = u.arbitrary()?;
    let r: u16 = u.arbitrary()?;
    let n = u.int_in_range(1..=6)?;
    let raw = |u: &mut Unstructured| -> arbitrary::Result<RawBlock> {
        if u.ratio(1, 5)? {
            let l = u.int_in_range(2..=5)?;
            Ok(RawBlock::Bytes(u.bytes(l)?.to_vec()))
        } else {
            let nums = [0u32, 1, 2, 100, 4095, 15, 16, 17, 255, 256, 1023, 1024, 1025, 65535];
            let num = if u.ratio(3, 4)? { nums[u.int_in_range(0..=nums.len() - 1)?] } else { u.int_in_range(0..=(1 << 20) - 1)? };
            Ok(RawBlock::Valid { num, more: u.arbitrary()?, szx: u.int_in_range(0..=7)? })
        }
    };
    let bloat = |u: &mut Unstructured| -> arbitrary::Result<Vec<(u16, u16)>> {
        let k: u8 = u.arbitrary()?;
        Ok(match k % 8 {
            0 => vec![(35, u.int_in_range(1100..=1400)?)],
            1 => vec![(2048, u.int_in_range(0..=700)?), (35, u.int_in_range(0..=700)?)],
            2 => vec![(15, u.int_in_range(0..=60)?)],
            _ => vec![],
        })
    };
    let mut steps = Vec::new();
    for _ in 0..n {
        let paths: [Vec<Vec<u8>>; 4] = [vec![b"r".to_vec()], vec![], vec![vec![0xFF, 0xFE], b"r".to_vec()], vec![b"r".to_vec(), b"".to_vec()]];
        let req = HostileReq {
            endpoint: u.int_in_range(0..=1)?,
            mtype: u.int_in_range(0..=3)?,
            token_len: u.int_in_range(0..=8)?,
            code: if u.ratio(5, 6)? { u.int_in_range(1..=5)? } else { u.arbitrary()? },
            path: paths[u.int_in_range(0..=3)?].clone(),
            bloat: bloat(&mut u)?,
            block1: if u.ratio(2, 3)? { Some(raw(&mut u)?) } else { None },
            block2: if u.ratio(1, 3)? { Some(raw(&mut u)?) } else { None },
            payload_len: u.int_in_range(0..=1200)?,
        };
        let reply = HostileReply {
            present: u.ratio(7, 8)?,
            code: [0x45u8, 0x44, 0x84, 0x00, 0xFF][u.int_in_range(0..=4)?],
            body_len: u.int_in_range(0..=10_000)?,
            bloat: bloat(&mut u)?,
            preset_block2: if u.ratio(1, 6)? { Some(raw(&mut u)?) } else { None },
        };
        steps.push((req, reply));
    }
    let k = r as usize % steps.len();
    let overhead = steps[k].0.spec(0).overhead();
    let budget = match budget_kind % 8 {
        0 => r as usize % 65,
        1 => 1152,
        2 | 3 => (overhead + 11 + (r as usize / 7) % 3).min(6000),
        4 => overhead + r as usize % 40,
        5 => overhead.saturating_sub(r as usize % 20),
        _ => r as usize % 5001,
    };
    Ok(Seq { budget, steps })
}

/// Runs the oracle of `property` on one fuzzer input for `target`.
pub fn fuzz_one(target: &str, property: &str, data: &[u8]) -> Result<(), Fail> {
    let ctx = fuzz_ctx(property);
    let mut acc = Acc::new();
    match target {
        "wire_decode" => {
            if property == "C02" {
                crate::props::c02_c03::check_c02(data, false, &mut acc)
            } else {
                crate::props::c02_c03::check_c03(data, false, &mut acc)
            }
        }
        "wire_encode" => {
            let Ok(s) = script(data) else { return Ok(()) };
            if property == "C04" {
                // the built message against limits around its own length
                let mut p = coap_lite::Packet::new();
                let mut model = crate::props::c01::Model::new();
                for op in &s.ops {
                    crate::props::c01::apply_to_packet(&mut p, op);
                    model.apply(op);
                }
                let limit = data.last().map(|b| *b as usize * 6).unwrap_or(1280);
                crate::props::c04::check_msg_limit(&model.msg(), limit, &mut acc)
            } else {
                crate::props::c01::check_script(&ctx, &s, &mut acc)
            }
        }
        "linkformat_parse" => match std::str::from_utf8(data) {
            Ok(s) => crate::props::linkfmt::check_total(&ctx, &s.to_string(), &mut acc, false),
            Err(_) => Ok(()),
        },
        #[cfg(feature = "std")]
        "block_hostile" => {
            let Ok(s) = hostile(data) else { return Ok(()) };
            crate::props::c11::check_seq(&ctx, &s, &mut acc)
        }
        _ => Err(Fail::new("harness", format!("unknown fuzz target {target}"))),
    }
}
