pub mod registry;
pub mod wire;
