//! Reference model of the RFC 7252 section 3 message format, written from the
//! RFC text and independent of the crate's sources: a message value type, an
//! encoder producing the exact wire image, and a three-valued parser.

use serde::{Deserialize, Serialize};

/// A CoAP message as the RFC defines it.  `options` is sorted by number with
/// the per-number order of values preserved (a stable sort of insertion
/// order).
#[derive(Clone, Debug, PartialEq, Eq, Hash, Serialize, Deserialize, Default)]
pub struct Msg {
    pub version: u8,
    pub mtype: u8,
    pub token: Vec<u8>,
    pub code: u8,
    pub mid: u16,
    pub options: Vec<(u16, Vec<u8>)>,
    pub payload: Vec<u8>,
}

pub const MAX_OPT_LEN: usize = 65535 + 269;

#[derive(Clone, Copy, Debug, PartialEq, Eq)]
pub enum EncErr {
    TokenTooLong,
    OptionValueTooLong,
    OptionsUnsorted,
}

fn nibble(v: usize) -> (u8, Vec<u8>) {
    if v <= 12 {
        (v as u8, vec![])
    } else if v <= 268 {
        (13, vec![(v - 13) as u8])
    } else {
        let x = (v - 269) as u16;
        (14, vec![(x >> 8) as u8, (x & 0xff) as u8])
    }
}

/// Size in bytes of the encoded option (header + extensions + value).
pub fn option_wire_len(delta: usize, vlen: usize) -> usize {
    1 + nibble(delta).1.len() + nibble(vlen.min(MAX_OPT_LEN)).1.len() + vlen
}

impl Msg {
    /// Whether a payload (and its marker) is part of the wire image.  A 0.00
    /// Empty message has no content after the message id.
    pub fn payload_sent(&self) -> bool {
        !self.payload.is_empty() && self.code != 0
    }

    pub fn encode_head(&self) -> Result<Vec<u8>, EncErr> {
        if self.token.len() > 8 {
            return Err(EncErr::TokenTooLong);
        }
        let mut out = Vec::new();
        out.push(
            (self.version & 3) << 6
                | (self.mtype & 3) << 4
                | self.token.len() as u8,
        );
        out.push(self.code);
        out.push((self.mid >> 8) as u8);
        out.push((self.mid & 0xff) as u8);
        out.extend_from_slice(&self.token);
        let mut prev = 0u16;
        for (num, val) in &self.options {
            if *num < prev {
                return Err(EncErr::OptionsUnsorted);
            }
            if val.len() > MAX_OPT_LEN {
                return Err(EncErr::OptionValueTooLong);
            }
            let (dn, dx) = nibble((*num - prev) as usize);
            let (ln, lx) = nibble(val.len());
            out.push(dn << 4 | ln);
            out.extend(dx);
            out.extend(lx);
            out.extend_from_slice(val);
            prev = *num;
        }
        Ok(out)
    }

    /// The RFC wire image: the payload marker and payload are present only
    /// when a payload is sent.
    pub fn encode(&self) -> Result<Vec<u8>, EncErr> {
        let mut out = self.encode_head()?;
        if self.payload_sent() {
            out.push(0xFF);
            out.extend_from_slice(&self.payload);
        }
        Ok(out)
    }

    /// Image with marker + payload even for code 0.00 (no valid RFC image
    /// exists for that combination; tolerated as an alternative).
    pub fn encode_with_payload_always(&self) -> Result<Vec<u8>, EncErr> {
        let mut out = self.encode_head()?;
        if !self.payload.is_empty() {
            out.push(0xFF);
            out.extend_from_slice(&self.payload);
        }
        Ok(out)
    }

    /// Exact wire length without materialising the image.
    pub fn wire_len(&self) -> Result<usize, EncErr> {
        if self.token.len() > 8 {
            return Err(EncErr::TokenTooLong);
        }
        let mut n = 4 + self.token.len();
        let mut prev = 0u16;
        for (num, val) in &self.options {
            if val.len() > MAX_OPT_LEN {
                return Err(EncErr::OptionValueTooLong);
            }
            n += option_wire_len((*num - prev) as usize, val.len());
            prev = *num;
        }
        if self.payload_sent() {
            n += 1 + self.payload.len();
        }
        Ok(n)
    }

    pub fn sort_options(&mut self) {
        self.options.sort_by_key(|(n, _)| *n); // stable
    }
}

#[derive(Clone, Debug, PartialEq, Eq)]
pub enum Verdict {
    /// Well formed, version 1: must be accepted with exactly these fields.
    MustAccept(Msg),
    /// One of the listed malformations: must be rejected.
    MustReject(&'static str),
    /// The RFC lets an implementation reject or accept (version != 1, marker
    /// with nothing after it, content in a 0.00 message).  If accepted, the
    /// fields must be these (for code 0.00 the payload may also be dropped).
    Either(Msg, &'static str),
}

/// What the reference parser saw on the way (for classification).
#[derive(Clone, Copy, Debug, Default)]
pub struct ParseStats {
    pub options: usize,
    pub ext8_delta: bool,
    pub ext16_delta: bool,
    pub ext8_len: bool,
    pub ext16_len: bool,
    pub entered_options: bool,
    pub has_marker: bool,
    /// Index of the marker byte, or the datagram length if none.
    pub options_end: usize,
}

pub fn parse(b: &[u8]) -> (Verdict, ParseStats) {
    let mut st = ParseStats::default();
    if b.len() < 4 {
        return (Verdict::MustReject("short"), st);
    }
    let version = b[0] >> 6;
    let mtype = (b[0] >> 4) & 3;
    let tkl = (b[0] & 0x0f) as usize;
    if tkl > 8 {
        return (Verdict::MustReject("tkl"), st);
    }
    if 4 + tkl > b.len() {
        return (Verdict::MustReject("token-trunc"), st);
    }
    let mut m = Msg {
        version,
        mtype,
        token: b[4..4 + tkl].to_vec(),
        code: b[1],
        mid: (b[2] as u16) << 8 | b[3] as u16,
        options: vec![],
        payload: vec![],
    };
    let mut i = 4 + tkl;
    let mut number: u32 = 0;
    let mut empty_after_marker = false;
    st.options_end = b.len();
    while i < b.len() {
        st.entered_options = true;
        let h = b[i];
        if h == 0xFF {
            st.has_marker = true;
            st.options_end = i;
            m.payload = b[i + 1..].to_vec();
            empty_after_marker = m.payload.is_empty();
            break;
        }
        i += 1;
        let dn = (h >> 4) as u32;
        let ln = (h & 0x0f) as usize;
        if dn == 15 {
            return (Verdict::MustReject("delta15"), st);
        }
        if ln == 15 {
            return (Verdict::MustReject("len15"), st);
        }
        let delta = match dn {
            13 => {
                if i >= b.len() {
                    return (Verdict::MustReject("ext-trunc"), st);
                }
                st.ext8_delta = true;
                let v = b[i] as u32 + 13;
                i += 1;
                v
            }
            14 => {
                if i + 1 >= b.len() {
                    return (Verdict::MustReject("ext-trunc"), st);
                }
                st.ext16_delta = true;
                let v = ((b[i] as u32) << 8 | b[i + 1] as u32) + 269;
                i += 2;
                v
            }
            d => d,
        };
        let len = match ln {
            13 => {
                if i >= b.len() {
                    return (Verdict::MustReject("ext-trunc"), st);
                }
                st.ext8_len = true;
                let v = b[i] as usize + 13;
                i += 1;
                v
            }
            14 => {
                if i + 1 >= b.len() {
                    return (Verdict::MustReject("ext-trunc"), st);
                }
                st.ext16_len = true;
                let v = ((b[i] as usize) << 8 | b[i + 1] as usize) + 269;
                i += 2;
                v
            }
            l => l,
        };
        number += delta;
        if number > 65535 {
            return (Verdict::MustReject("number-overflow"), st);
        }
        if i + len > b.len() {
            return (Verdict::MustReject("value-trunc"), st);
        }
        m.options.push((number as u16, b[i..i + len].to_vec()));
        st.options += 1;
        i += len;
    }
    if version != 1 {
        return (Verdict::Either(m, "version"), st);
    }
    if m.code == 0 && b.len() > 4 {
        return (Verdict::Either(m, "empty-with-content"), st);
    }
    if empty_after_marker {
        return (Verdict::Either(m, "marker-no-payload"), st);
    }
    (Verdict::MustAccept(m), st)
}
