//! Protocol number tables transcribed from the IANA "Constrained RESTful
//! Environments (CoRE) Parameters" registry and RFC 7252 / 7641 / 7959 /
//! 7967 / 8132 / 8516 / 8613 / 8768 — independently of the crate's sources.
//! Each *enum variant* of the crate is paired with its registry number, so a
//! swap applied consistently to both directions of the crate's own tables is
//! still caught.

use coap_lite::{
    CoapOption, ContentFormat, MessageType, ObserveOption, RequestType,
    ResponseType,
};

pub fn options() -> Vec<(CoapOption, u16, &'static str)> {
    use CoapOption::*;
    vec![
        (IfMatch, 1, "If-Match"),
        (UriHost, 3, "Uri-Host"),
        (ETag, 4, "ETag"),
        (IfNoneMatch, 5, "If-None-Match"),
        (Observe, 6, "Observe (RFC 7641)"),
        (UriPort, 7, "Uri-Port"),
        (LocationPath, 8, "Location-Path"),
        (Oscore, 9, "OSCORE (RFC 8613)"),
        (UriPath, 11, "Uri-Path"),
        (ContentFormat, 12, "Content-Format"),
        (MaxAge, 14, "Max-Age"),
        (UriQuery, 15, "Uri-Query"),
        (Accept, 17, "Accept"),
        (LocationQuery, 20, "Location-Query"),
        (Block2, 23, "Block2 (RFC 7959)"),
        (Block1, 27, "Block1 (RFC 7959)"),
        (Size2, 28, "Size2 (RFC 7959)"),
        (ProxyUri, 35, "Proxy-Uri"),
        (ProxyScheme, 39, "Proxy-Scheme"),
        (Size1, 60, "Size1"),
        (NoResponse, 258, "No-Response (RFC 7967)"),
    ]
}

pub fn content_formats() -> Vec<(ContentFormat, u16, &'static str)> {
    use ContentFormat::*;
    vec![
        (TextPlain, 0, "text/plain; charset=utf-8"),
        (ApplicationCoseEncrypt0, 16, "application/cose; cose-type=\"cose-encrypt0\""),
        (ApplicationCoseMac0, 17, "application/cose; cose-type=\"cose-mac0\""),
        (ApplicationCoseSign1, 18, "application/cose; cose-type=\"cose-sign1\""),
        (ApplicationAceCbor, 19, "application/ace+cbor"),
        (ImageGif, 21, "image/gif"),
        (ImageJpeg, 22, "image/jpeg"),
        (ImagePng, 23, "image/png"),
        (ApplicationLinkFormat, 40, "application/link-format"),
        (ApplicationXML, 41, "application/xml"),
        (ApplicationOctetStream, 42, "application/octet-stream"),
        (ApplicationEXI, 47, "application/exi"),
        (ApplicationJSON, 50, "application/json"),
        (ApplicationJsonPatchJson, 51, "application/json-patch+json"),
        (ApplicationMergePatchJson, 52, "application/merge-patch+json"),
        (ApplicationCBOR, 60, "application/cbor"),
        (ApplicationCWt, 61, "application/cwt"),
        (ApplicationMultipartCore, 62, "application/multipart-core"),
        (ApplicationCborSeq, 63, "application/cbor-seq"),
        (ApplicationCoseEncrypt, 96, "application/cose; cose-type=\"cose-encrypt\""),
        (ApplicationCoseMac, 97, "application/cose; cose-type=\"cose-mac\""),
        (ApplicationCoseSign, 98, "application/cose; cose-type=\"cose-sign\""),
        (ApplicationCoseKey, 101, "application/cose-key"),
        (ApplicationCoseKeySet, 102, "application/cose-key-set"),
        (ApplicationSenmlJSON, 110, "application/senml+json"),
        (ApplicationSensmlJSON, 111, "application/sensml+json"),
        (ApplicationSenmlCBOR, 112, "application/senml+cbor"),
        (ApplicationSensmlCBOR, 113, "application/sensml+cbor"),
        (ApplicationSenmlExi, 114, "application/senml-exi"),
        (ApplicationSensmlExi, 115, "application/sensml-exi"),
        (ApplicationYangDataCborSid, 140, "application/yang-data+cbor; id=sid"),
        (ApplicationCoapGroupJson, 256, "application/coap-group+json"),
        (ApplicationDotsCbor, 271, "application/dots+cbor"),
        (ApplicationMissingBlocksCborSeq, 272, "application/missing-blocks+cbor-seq"),
        (ApplicationPkcs7MimeServerGeneratedKey, 280, "application/pkcs7-mime; smime-type=server-generated-key"),
        (ApplicationPkcs7MimeCertsOnly, 281, "application/pkcs7-mime; smime-type=certs-only"),
        (ApplicationPkcs8, 284, "application/pkcs8"),
        (ApplicationCsrattrs, 285, "application/csrattrs"),
        (ApplicationPkcs10, 286, "application/pkcs10"),
        (ApplicationPkixCert, 287, "application/pkix-cert"),
        (ApplicationAifCbor, 290, "application/aif+cbor"),
        (ApplicationAifJson, 291, "application/aif+json"),
        (ApplicationSenmlXML, 310, "application/senml+xml"),
        (ApplicationSensmlXML, 311, "application/sensml+xml"),
        (ApplicationSenmlEtchJson, 320, "application/senml-etch+json"),
        (ApplicationSenmlEtchCbor, 322, "application/senml-etch+cbor"),
        (ApplicationYangDataCbor, 340, "application/yang-data+cbor"),
        (ApplicationYangDataCborName, 341, "application/yang-data+cbor; id=name"),
        (ApplicationTdJson, 432, "application/td+json"),
        (ApplicationVoucherCoseCbor, 836, "application/voucher-cose+cbor"),
        (ApplicationVndOcfCbor, 10000, "application/vnd.ocf+cbor"),
        (ApplicationOscore, 10001, "application/oscore"),
        (ApplicationJavascript, 10002, "application/javascript"),
        (ApplicationJsonDeflate, 11050, "application/json (deflate)"),
        (ApplicationCborDeflate, 11060, "application/cbor (deflate)"),
        (ApplicationVndOmaLwm2mTlv, 11542, "application/vnd.oma.lwm2m+tlv"),
        (ApplicationVndOmaLwm2mJson, 11543, "application/vnd.oma.lwm2m+json"),
        (ApplicationVndOmaLwm2mCbor, 11544, "application/vnd.oma.lwm2m+cbor"),
        (TextCss, 20000, "text/css"),
        (ImageSvgXml, 30000, "image/svg+xml"),
    ]
}

pub fn methods() -> Vec<(RequestType, u8, &'static str)> {
    use RequestType::*;
    vec![
        (Get, 0x01, "0.01 GET"),
        (Post, 0x02, "0.02 POST"),
        (Put, 0x03, "0.03 PUT"),
        (Delete, 0x04, "0.04 DELETE"),
        (Fetch, 0x05, "0.05 FETCH (RFC 8132)"),
        (Patch, 0x06, "0.06 PATCH (RFC 8132)"),
        (IPatch, 0x07, "0.07 iPATCH (RFC 8132)"),
    ]
}

pub fn statuses() -> Vec<(ResponseType, u8, &'static str)> {
    use ResponseType::*;
    vec![
        (Created, 0x41, "2.01 Created"),
        (Deleted, 0x42, "2.02 Deleted"),
        (Valid, 0x43, "2.03 Valid"),
        (Changed, 0x44, "2.04 Changed"),
        (Content, 0x45, "2.05 Content"),
        (Continue, 0x5F, "2.31 Continue (RFC 7959)"),
        (BadRequest, 0x80, "4.00 Bad Request"),
        (Unauthorized, 0x81, "4.01 Unauthorized"),
        (BadOption, 0x82, "4.02 Bad Option"),
        (Forbidden, 0x83, "4.03 Forbidden"),
        (NotFound, 0x84, "4.04 Not Found"),
        (MethodNotAllowed, 0x85, "4.05 Method Not Allowed"),
        (NotAcceptable, 0x86, "4.06 Not Acceptable"),
        (RequestEntityIncomplete, 0x88, "4.08 Request Entity Incomplete (RFC 7959)"),
        (Conflict, 0x89, "4.09 Conflict (RFC 8132)"),
        (PreconditionFailed, 0x8C, "4.12 Precondition Failed"),
        (RequestEntityTooLarge, 0x8D, "4.13 Request Entity Too Large"),
        (UnsupportedContentFormat, 0x8F, "4.15 Unsupported Content-Format"),
        (UnprocessableEntity, 0x96, "4.22 Unprocessable Entity (RFC 8132)"),
        (TooManyRequests, 0x9D, "4.29 Too Many Requests (RFC 8516)"),
        (InternalServerError, 0xA0, "5.00 Internal Server Error"),
        (NotImplemented, 0xA1, "5.01 Not Implemented"),
        (BadGateway, 0xA2, "5.02 Bad Gateway"),
        (ServiceUnavailable, 0xA3, "5.03 Service Unavailable"),
        (GatewayTimeout, 0xA4, "5.04 Gateway Timeout"),
        (ProxyingNotSupported, 0xA5, "5.05 Proxying Not Supported"),
        (HopLimitReached, 0xA8, "5.08 Hop Limit Reached (RFC 8768)"),
    ]
}

pub fn types() -> Vec<(MessageType, u8, &'static str)> {
    use MessageType::*;
    vec![
        (Confirmable, 0, "CON"),
        (NonConfirmable, 1, "NON"),
        (Acknowledgement, 2, "ACK"),
        (Reset, 3, "RST"),
    ]
}

pub fn observe_actions() -> Vec<(ObserveOption, u32, &'static str)> {
    vec![
        (ObserveOption::Register, 0, "register (RFC 7641)"),
        (ObserveOption::Deregister, 1, "deregister (RFC 7641)"),
    ]
}
