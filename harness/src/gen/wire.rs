//! Generators for messages and message-building scripts, biased to the
//! arithmetic boundaries of the RFC 7252 option encoding.

use proptest::prelude::*;
use serde::{Deserialize, Serialize};

use crate::refmodel::wire::Msg;

/// A byte string that stays small when serialised: literal when short, a
/// deterministic pattern when long.
#[derive(Clone, Debug, PartialEq, Eq, Hash, Serialize, Deserialize)]
pub enum Blob {
    Lit(Vec<u8>),
    Pat { len: u32, seed: u8 },
}

impl Blob {
    pub fn bytes(&self) -> Vec<u8> {
        match self {
            Blob::Lit(v) => v.clone(),
            Blob::Pat { len, seed } => pattern(*len as usize, *seed),
        }
    }
    pub fn len(&self) -> usize {
        match self {
            Blob::Lit(v) => v.len(),
            Blob::Pat { len, .. } => *len as usize,
        }
    }
    pub fn is_empty(&self) -> bool {
        self.len() == 0
    }
}

/// Position-dependent bytes (never 0xFF-only, so misplacement is visible).
pub fn pattern(len: usize, seed: u8) -> Vec<u8> {
    (0..len)
        .map(|i| {
            (seed as usize)
                .wrapping_add(i.wrapping_mul(31))
                .wrapping_add(i >> 8) as u8
        })
        .collect()
}

/// Lengths on both sides of every threshold of the length encoding.
pub fn boundary_len(max: usize) -> BoxedStrategy<usize> {
    let pts: Vec<usize> = [
        0usize, 1, 2, 11, 12, 13, 14, 15, 255, 256, 267, 268, 269, 270, 271,
        524, 525, 1023, 1024, 1279, 1280, 65535, 65536, 65803, 65804,
    ]
    .iter()
    .copied()
    .filter(|&x| x <= max)
    .collect();
    let small: Vec<usize> =
        pts.iter().copied().filter(|&x| x <= 300).collect();
    prop_oneof![
        6 => 0usize..=16,
        4 => proptest::sample::select(small),
        1 => proptest::sample::select(pts),
        1 => 0usize..=max.min(400),
    ]
    .boxed()
}

pub fn blob_of_len(len: usize) -> BoxedStrategy<Blob> {
    if len <= 24 {
        proptest::collection::vec(any::<u8>(), len)
            .prop_map(Blob::Lit)
            .boxed()
    } else {
        any::<u8>()
            .prop_map(move |seed| Blob::Pat {
                len: len as u32,
                seed,
            })
            .boxed()
    }
}

pub fn blob(max: usize) -> BoxedStrategy<Blob> {
    boundary_len(max).prop_flat_map(blob_of_len).boxed()
}

/// Option deltas on both sides of every threshold of the delta encoding.
pub fn boundary_delta() -> BoxedStrategy<u32> {
    prop_oneof![
        6 => 0u32..=14,
        3 => proptest::sample::select(vec![
            0u32, 1, 11, 12, 13, 14, 15, 254, 255, 256, 257, 258, 267, 268,
            269, 270, 271, 524, 525, 526, 1000, 65000, 65534, 65535,
        ]),
        1 => 0u32..=700,
        1 => 0u32..=65535,
    ]
    .boxed()
}

/// A sorted option list built from boundary deltas (numbers capped at 65535).
pub fn option_list(
    max_opts: usize,
    max_len: usize,
) -> BoxedStrategy<Vec<(u16, Blob)>> {
    proptest::collection::vec((boundary_delta(), blob(max_len)), 0..=max_opts)
        .prop_map(|v| {
            let mut num: u32 = 0;
            let mut out = Vec::new();
            for (d, b) in v {
                num = (num + d).min(65535);
                out.push((num as u16, b));
            }
            out
        })
        .boxed()
}

pub fn token() -> BoxedStrategy<Vec<u8>> {
    prop_oneof![
        3 => proptest::collection::vec(any::<u8>(), 0..=8),
        1 => proptest::collection::vec(any::<u8>(), 8),
        1 => Just(vec![]),
    ]
    .boxed()
}

pub fn code_byte() -> BoxedStrategy<u8> {
    prop_oneof![
        4 => proptest::sample::select(vec![
            0x00u8, 0x01, 0x02, 0x03, 0x04, 0x05, 0x45, 0x44, 0x5F, 0x84,
            0x8D, 0xA0, 0xFF,
        ]),
        2 => any::<u8>(),
    ]
    .boxed()
}

/// Compact, serialisable message description.
#[derive(Clone, Debug, PartialEq, Eq, Hash, Serialize, Deserialize)]
pub struct MsgSpec {
    pub version: u8,
    pub mtype: u8,
    pub token: Vec<u8>,
    pub code: u8,
    pub mid: u16,
    pub options: Vec<(u16, Blob)>,
    pub payload: Blob,
}

impl MsgSpec {
    pub fn msg(&self) -> Msg {
        let mut m = Msg {
            version: self.version & 3,
            mtype: self.mtype & 3,
            token: self.token.clone(),
            code: self.code,
            mid: self.mid,
            options: self
                .options
                .iter()
                .map(|(n, b)| (*n, b.bytes()))
                .collect(),
            payload: self.payload.bytes(),
        };
        m.token.truncate(8);
        m.sort_options();
        m
    }
}

pub fn msg_spec(
    max_opts: usize,
    max_len: usize,
    max_payload: usize,
) -> BoxedStrategy<MsgSpec> {
    (
        prop_oneof![4 => Just(1u8), 1 => 0u8..4],
        0u8..4,
        token(),
        code_byte(),
        prop_oneof![any::<u16>(), Just(0u16), Just(0xFFFFu16)],
        option_list(max_opts, max_len),
        prop_oneof![3 => Just(Blob::Lit(vec![])), 5 => blob(max_payload)],
    )
        .prop_map(|(version, mtype, token, code, mid, options, payload)| {
            MsgSpec {
                version,
                mtype,
                token,
                code,
                mid,
                options,
                payload,
            }
        })
        .boxed()
}

/// A well-formed version-1 message with small fields (for corruption and
/// prefix families).
pub fn small_valid_msg() -> BoxedStrategy<MsgSpec> {
    (
        0u8..4,
        token(),
        code_byte(),
        any::<u16>(),
        proptest::collection::vec(
            (
                prop_oneof![
                    5 => 0u32..=14,
                    2 => proptest::sample::select(vec![12u32, 13, 14, 255, 256, 268, 269, 270, 300]),
                ],
                prop_oneof![
                    6 => 0usize..=5,
                    2 => proptest::sample::select(vec![12usize, 13, 14, 20]),
                    1 => proptest::sample::select(vec![268usize, 269, 270]),
                ],
                any::<u8>(),
            ),
            0..=40,
        ),
        prop_oneof![2 => Just(0usize), 3 => 1usize..=6],
        any::<u8>(),
    )
        .prop_map(|(mtype, token, code, mid, mut opts, plen, pseed)| {
            // mostly few options, sometimes a dozen, sometimes dozens
            let keep = match pseed % 10 {
                0 => 40,
                1 => 12,
                _ => 4,
            };
            opts.truncate(keep);
            let mut num = 0u32;
            let mut options = Vec::new();
            for (d, l, s) in opts {
                num = (num + d).min(65535);
                options.push((
                    num as u16,
                    if l <= 24 {
                        Blob::Lit(pattern(l, s))
                    } else {
                        Blob::Pat {
                            len: l as u32,
                            seed: s,
                        }
                    },
                ));
            }
            MsgSpec {
                version: 1,
                mtype,
                token,
                code,
                mid,
                options,
                payload: Blob::Lit(pattern(plen, pseed)),
            }
        })
        .boxed()
}
