pub mod wire;
