//! C19 — convenience accessors and coap-message views agree with raw state.

use std::collections::BTreeMap;


use coap_lite::error::InvalidObserve;
use coap_lite::{
    CoapOption, CoapRequest, CoapResponse, ContentFormat, MessageClass,
    ObserveOption, Packet, RequestType, ResponseType,
};
use proptest::prelude::*;
use serde::{Deserialize, Serialize};
use serde_json::json;

use crate::engine::*;
use crate::gen::wire::*;
use crate::pkt::*;
use crate::props::c01::min_uint;
use crate::refmodel::registry as reg;
use crate::refmodel::wire::Msg;
use crate::{ensure, fail};

/// What the packet holds before the setter under test runs.
#[derive(Clone, Debug, Serialize, Deserialize, Hash)]
pub enum Prior {
    Fresh,
    /// the same accessor already used with the value of this table index
    SetterBefore(u16),
    /// raw option bytes added under the accessor's option number
    RawBefore(Vec<Vec<u8>>),
    /// packet obtained by parsing bytes that already carry the option
    Parsed(Vec<u8>),
    /// the value about to be set is already there, raw, with a leading zero
    RawSamePadded,
}

#[derive(Clone, Debug, Serialize, Deserialize, Hash)]
pub struct SetCase {
    pub kind: String,
    pub index: u16,
    pub prior: Prior,
}

fn base_msg() -> Msg {
    Msg {
        version: 1,
        mtype: 0,
        token: vec![9, 8],
        code: 0x01,
        mid: 0x0102,
        options: vec![(4, vec![1, 2, 3]), (60, vec![5])],
        payload: vec![0xAA],
    }
}

fn encode_check(p: &Packet, want: &Msg, what: &str) -> Result<(), Fail> {
    let reference = want.encode().unwrap();
    match catch(|| p.to_bytes_unlimited()) {
        Ok(Ok(b)) => {
            ensure!(
                b == reference,
                "c19-encoded-bytes",
                "{what}: encoded bytes {} differ from the reference {}",
                hex(&b),
                hex(&reference)
            );
            Ok(())
        }
        other => fail!("c19-encode", "{what}: encoding failed: {other:?}"),
    }
}

fn status_ref(s: ResponseType) -> &'static ResponseType {
    // get_status returns a reference; compare by value
    Box::leak(Box::new(s))
}

pub fn check_set(_ctx: &Ctx, c: &SetCase, acc: &mut Acc) -> Result<(), Fail> {
    let mut model = base_msg();
    let mut nontrivial = !matches!(c.prior, Prior::Fresh);
    match c.kind.as_str() {
        "method" => {
            let t = reg::methods();
            let (m, byte, name) = t[c.index as usize % t.len()];
            let mut req: CoapRequest<u8> = CoapRequest::new();
            req.message = from_msg(&model);
            if let Prior::SetterBefore(i) = &c.prior {
                req.set_method(t[*i as usize % t.len()].0);
            }
            if let Prior::RawBefore(v) = &c.prior {
                req.message.header.code =
                    MessageClass::from(v.first().and_then(|b| b.first()).copied().unwrap_or(0x45));
            }
            req.set_method(m);
            ensure!(
                *req.get_method() == m,
                "c19-method-getter",
                "set_method({m:?}) then get_method() = {:?}",
                req.get_method()
            );
            ensure!(
                u8::from(req.message.header.code) == byte,
                "c19-method-raw",
                "set_method({m:?}) ({name}) stored code {:#04x}, registry {byte:#04x}",
                u8::from(req.message.header.code)
            );
            model.code = byte;
            encode_check(&req.message, &model, "set_method")?;
        }
        "status" => {
            let t = reg::statuses();
            let (s, byte, name) = t[c.index as usize % t.len()];
            let mut resp = CoapResponse { message: from_msg(&model) };
            if let Prior::SetterBefore(i) = &c.prior {
                resp.set_status(t[*i as usize % t.len()].0);
            }
            resp.set_status(s);
            ensure!(
                *resp.get_status() == s,
                "c19-status-getter",
                "set_status({s:?}) ({name}) then get_status() = {:?}",
                resp.get_status()
            );
            ensure!(
                u8::from(resp.message.header.code) == byte,
                "c19-status-raw",
                "set_status({s:?}) stored code {:#04x}, registry {byte:#04x}",
                u8::from(resp.message.header.code)
            );
            model.code = byte;
            encode_check(&resp.message, &model, "set_status")?;
            let _ = status_ref;
        }
        "content-format" => {
            let t = reg::content_formats();
            let (cf, id, name) = t[c.index as usize % t.len()];
            let mut p = match &c.prior {
                Prior::Parsed(_) => {
                    let mut m = model.clone();
                    m.options.push((12, vec![42]));
                    m.sort_options();
                    Packet::from_bytes(&m.encode().unwrap()).map_err(|e| {
                        Fail::new("harness", format!("parse of own reference image failed: {e:?}"))
                    })?
                }
                _ => from_msg(&model),
            };
            if let Prior::SetterBefore(i) = &c.prior {
                p.set_content_format(t[*i as usize % t.len()].0);
            }
            if let Prior::RawBefore(v) = &c.prior {
                for b in v {
                    p.add_option(CoapOption::ContentFormat, b.clone());
                }
            }
            if let Prior::RawSamePadded = &c.prior {
                let mut b = min_uint(id as u64);
                b.insert(0, 0);
                p.add_option(CoapOption::ContentFormat, b);
            }
            p.set_content_format(cf);
            let got = p.get_content_format();
            ensure!(
                got == Some(cf),
                "c19-content-format-getter",
                "set_content_format({cf:?}) ({name}) after {:?}: get_content_format() = {got:?}",
                c.prior
            );
            let raw: Vec<Vec<u8>> = p
                .get_option(CoapOption::ContentFormat)
                .map(|l| l.iter().cloned().collect())
                .unwrap_or_default();
            ensure!(
                raw == vec![min_uint(id as u64)],
                "c19-content-format-raw",
                "set_content_format({cf:?}) after {:?}: raw Content-Format values are {:?}, expected exactly [{}]",
                c.prior,
                raw.iter().map(|b| hex(b)).collect::<Vec<_>>(),
                hex(&min_uint(id as u64))
            );
            model.options.push((12, min_uint(id as u64)));
            model.sort_options();
            encode_check(&p, &model, "set_content_format")?;
        }
        "observe" => {
            let t = reg::observe_actions();
            let (f, num, _) = t[c.index as usize % t.len()];
            let mut req: CoapRequest<u8> = CoapRequest::new();
            req.message = from_msg(&model);
            if let Prior::SetterBefore(i) = &c.prior {
                req.set_observe_flag(t[*i as usize % t.len()].0);
            }
            if let Prior::RawBefore(v) = &c.prior {
                for b in v {
                    req.message.add_option(CoapOption::Observe, b.clone());
                }
            }
            if let Prior::RawSamePadded = &c.prior {
                let mut b = min_uint(num as u64);
                b.insert(0, 0);
                req.message.add_option(CoapOption::Observe, b);
            }
            req.set_observe_flag(f);
            let got = req.get_observe_flag();
            ensure!(
                got == Some(Ok(f)),
                "c19-observe-getter",
                "set_observe_flag({f:?}) after {:?}: get_observe_flag() = {got:?}",
                c.prior
            );
            let raw: Vec<Vec<u8>> = req
                .message
                .get_option(CoapOption::Observe)
                .map(|l| l.iter().cloned().collect())
                .unwrap_or_default();
            ensure!(
                raw == vec![min_uint(num as u64)],
                "c19-observe-raw",
                "set_observe_flag({f:?}) after {:?}: raw Observe values {:?}",
                c.prior,
                raw.iter().map(|b| hex(b)).collect::<Vec<_>>()
            );
            ensure!(
                req.message.get_observe_value() == Some(Ok(num)),
                "c19-observe-value",
                "get_observe_value() = {:?} after set_observe_flag({f:?})",
                req.message.get_observe_value()
            );
            model.options.push((6, min_uint(num as u64)));
            model.sort_options();
            encode_check(&req.message, &model, "set_observe_flag")?;
        }
        other => fail!("harness", "unknown kind {other}"),
    }
    if matches!(c.prior, Prior::SetterBefore(i) if i != c.index) {
        acc.class("set-twice-different");
    }
    if matches!(c.prior, Prior::RawBefore(_)) {
        acc.class("set-after-raw");
    }
    if matches!(c.prior, Prior::Parsed(_)) {
        acc.class("set-on-parsed");
        nontrivial = true;
    }
    if nontrivial {
        acc.nontrivial_enum();
    }
    acc.sample(
        match c.kind.as_str() {
            "method" => "method",
            "status" => "status",
            "content-format" => "content-format",
            _ => "observe",
        },
        || json!(c),
    );
    Ok(())
}

/// Getters over every code byte.
pub fn check_code_getters(_ctx: &Ctx, b: &u8, acc: &mut Acc) -> Result<(), Fail> {
    let b = *b;
    let mut req: CoapRequest<u8> = CoapRequest::new();
    req.message.header.code = MessageClass::from(b);
    let want_m = reg::methods()
        .into_iter()
        .find(|t| t.1 == b)
        .map(|t| t.0)
        .unwrap_or(RequestType::UnKnown);
    ensure!(
        *req.get_method() == want_m,
        "c19-get-method",
        "code byte {b:#04x}: get_method() = {:?}, expected {want_m:?}",
        req.get_method()
    );
    let resp = CoapResponse { message: req.message.clone() };
    let want_s = reg::statuses()
        .into_iter()
        .find(|t| t.1 == b)
        .map(|t| t.0)
        .unwrap_or(ResponseType::UnKnown);
    ensure!(
        *resp.get_status() == want_s,
        "c19-get-status",
        "code byte {b:#04x} ({}.{:02}): get_status() = {:?}, expected {want_s:?}",
        b >> 5,
        b & 31,
        resp.get_status()
    );
    // through the parser as well
    let p = Packet::from_bytes(&[0x40, b, 0, 1]).map_err(|e| Fail::new("harness", format!("{e:?}")))?;
    let r2 = CoapResponse { message: p };
    ensure!(
        *r2.get_status() == want_s,
        "c19-get-status",
        "parsed code byte {b:#04x}: get_status() = {:?}, expected {want_s:?}",
        r2.get_status()
    );
    if want_m != RequestType::UnKnown || want_s != ResponseType::UnKnown {
        acc.class("named");
    }
    acc.nontrivial_enum();
    acc.sample("code-byte", || json!(b));
    Ok(())
}

#[derive(Clone, Debug, Serialize, Deserialize, Hash)]
pub struct PathCase {
    pub path: String,
    pub prior_segments: Vec<Vec<u8>>,
    pub prior_path: Option<String>,
}

pub fn check_path(_ctx: &Ctx, c: &PathCase, acc: &mut Acc, enumerated: bool) -> Result<(), Fail> {
    let mut model = base_msg();
    let mut req: CoapRequest<u8> = CoapRequest::new();
    req.message = from_msg(&model);
    for s in &c.prior_segments {
        req.message.add_option(CoapOption::UriPath, s.clone());
    }
    if let Some(p) = &c.prior_path {
        req.set_path(p);
    }
    if let Err(msg) = catch(|| req.set_path(&c.path)) {
        fail!("c19-set-path-panic", "set_path({:?}) panicked: {msg}", c.path);
    }
    let mut segs: Vec<&str> = c.path.split('/').collect();
    if segs.first() == Some(&"") {
        segs.remove(0);
    }
    let raw: Vec<Vec<u8>> = req
        .message
        .get_option(CoapOption::UriPath)
        .map(|l| l.iter().cloned().collect())
        .unwrap_or_default();
    let want_raw: Vec<Vec<u8>> = segs.iter().map(|s| s.as_bytes().to_vec()).collect();
    ensure!(
        raw == want_raw,
        "c19-path-raw",
        "set_path({:?}) (prior {} raw segments, prior path {:?}) stored {:?}, expected segments {:?}",
        c.path,
        c.prior_segments.len(),
        c.prior_path,
        raw.iter().map(|b| String::from_utf8_lossy(b).into_owned()).collect::<Vec<_>>(),
        segs
    );
    let joined = segs.join("/");
    ensure!(
        req.get_path() == joined,
        "c19-path-getter",
        "set_path({:?}) then get_path() = {:?}, expected {joined:?}",
        c.path,
        req.get_path()
    );
    let as_vec = req.get_path_as_vec();
    ensure!(
        as_vec == Ok(segs.iter().map(|s| s.to_string()).collect()),
        "c19-path-as-vec",
        "set_path({:?}) then get_path_as_vec() = {as_vec:?}, expected {segs:?}",
        c.path
    );
    for s in &want_raw {
        model.options.push((11, s.clone()));
    }
    model.sort_options();
    encode_check(&req.message, &model, "set_path")?;
    let nt = !c.prior_segments.is_empty()
        || c.prior_path.is_some()
        || segs.iter().any(|s| s.is_empty());
    if nt {
        if enumerated {
            acc.nontrivial_enum();
        } else {
            acc.nontrivial(fp(c));
        }
    }
    if segs.iter().any(|s| s.is_empty()) {
        acc.class("empty-segment");
    }
    if c.path.starts_with('/') {
        acc.class("leading-slash");
    }
    acc.sample("path", || json!(c));
    Ok(())
}

/// Raw option bytes under Observe / Content-Format / Uri-Path read through the
/// convenience getters.
pub fn check_raw_read(_ctx: &Ctx, values: &Vec<Vec<u8>>, acc: &mut Acc, enumerated: bool) -> Result<(), Fail> {
    let mut req: CoapRequest<u8> = CoapRequest::new();
    for v in values {
        req.message.add_option(CoapOption::Observe, v.clone());
        req.message.add_option(CoapOption::ContentFormat, v.clone());
        req.message.add_option(CoapOption::UriPath, v.clone());
    }
    let first = values.first();
    let dec = |w: usize| -> Option<Option<u64>> {
        first.map(|b| {
            if b.len() > w {
                None
            } else {
                Some(b.iter().fold(0u64, |a, &x| a << 8 | x as u64))
            }
        })
    };
    // observe
    let want_flag: Option<Result<ObserveOption, InvalidObserve>> = dec(4).map(|v| match v {
        Some(0) => Ok(ObserveOption::Register),
        Some(1) => Ok(ObserveOption::Deregister),
        _ => Err(InvalidObserve),
    });
    let got = match catch(|| req.get_observe_flag()) {
        Ok(g) => g,
        Err(msg) => fail!("c19-observe-getter-panic", "get_observe_flag panicked on {:?}: {msg}", first.map(|b| hex(b))),
    };
    ensure!(
        got == want_flag,
        "c19-observe-unnamed",
        "raw Observe {:?}: get_observe_flag() = {got:?}, expected {want_flag:?}",
        first.map(|b| hex(b))
    );
    let gv = req.message.get_observe_value();
    let okv = match (&gv, dec(4)) {
        (None, None) => true,
        (Some(Ok(v)), Some(Some(w))) => *v as u64 == w,
        (Some(Err(_)), Some(None)) => true,
        _ => false,
    };
    ensure!(okv, "c19-observe-value", "raw Observe {:?}: get_observe_value() = {gv:?}", first.map(|b| hex(b)));
    // content format
    let want_cf: Option<ContentFormat> = match dec(2) {
        Some(Some(id)) => reg::content_formats().into_iter().find(|t| t.1 as u64 == id).map(|t| t.0),
        _ => None,
    };
    let got_cf = match catch(|| req.message.get_content_format()) {
        Ok(g) => g,
        Err(msg) => fail!("c19-content-format-getter-panic", "get_content_format panicked: {msg}"),
    };
    ensure!(
        got_cf == want_cf,
        "c19-content-format-unnamed",
        "raw Content-Format {:?}: get_content_format() = {got_cf:?}, expected {want_cf:?}",
        first.map(|b| hex(b))
    );
    // path
    let all_utf8: Option<Vec<String>> = values
        .iter()
        .map(|b| String::from_utf8(b.clone()).ok())
        .collect();
    let got_vec = req.get_path_as_vec();
    match (&all_utf8, &got_vec) {
        (Some(w), Ok(g)) => ensure!(g == w, "c19-path-as-vec", "raw Uri-Path read as {g:?}, expected {w:?}"),
        (None, Err(_)) => {}
        _ => fail!("c19-path-as-vec", "raw Uri-Path {:?}: get_path_as_vec() = {got_vec:?}", values.iter().map(|b| hex(b)).collect::<Vec<_>>()),
    }
    if first.map(|b| b.len() > 1).unwrap_or(false) {
        if enumerated {
            acc.nontrivial_enum();
        } else {
            acc.nontrivial(fp(values));
        }
    }
    match want_flag {
        None => acc.class("observe:none"),
        Some(Ok(_)) => acc.class("observe:named"),
        Some(Err(_)) => acc.class("observe:invalid"),
    }
    if want_cf.is_some() {
        acc.class("content-format:named");
    }
    acc.sample("raw-read", || json!(values.iter().map(|b| hex(b)).collect::<Vec<_>>()));
    Ok(())
}

// ---- coap-message trait views -------------------------------------------

pub struct VecMessage {
    pub code: u8,
    pub options: Vec<(u16, Vec<u8>)>,
    pub payload: Vec<u8>,
}

pub struct VecOpt<'a>(u16, &'a [u8]);

mod v02 {
    use super::*;
    use coap_message::{
        MessageOption, MinimalWritableMessage, MutableWritableMessage, ReadableMessage,
        WithSortedOptions,
    };

    impl MessageOption for VecOpt<'_> {
        fn number(&self) -> u16 {
            self.0
        }
        fn value(&self) -> &[u8] {
            self.1
        }
    }
    impl ReadableMessage for VecMessage {
        type Code = u8;
        type MessageOption<'a> = VecOpt<'a>;
        type OptionsIter<'a> = std::vec::IntoIter<VecOpt<'a>>;
        fn code(&self) -> u8 {
            self.code
        }
        fn payload(&self) -> &[u8] {
            &self.payload
        }
        fn options(&self) -> Self::OptionsIter<'_> {
            self.options.iter().map(|(n, v)| VecOpt(*n, v)).collect::<Vec<_>>().into_iter()
        }
    }
    impl WithSortedOptions for VecMessage {}

    pub fn read_view(p: &Packet) -> (u8, Vec<(u16, Vec<u8>)>, Vec<u8>) {
        (
            u8::from(ReadableMessage::code(p)),
            ReadableMessage::options(p).map(|o| (o.number(), o.value().to_vec())).collect(),
            ReadableMessage::payload(p).to_vec(),
        )
    }
    pub fn copy_from_packet(src: &Packet) -> Packet {
        let mut dst = Packet::new();
        MinimalWritableMessage::set_from_message(&mut dst, src);
        dst
    }
    pub fn copy_from_vec(src: &VecMessage) -> Packet {
        let mut dst = Packet::new();
        MinimalWritableMessage::set_from_message(&mut dst, src);
        dst
    }
    pub fn write_ops(p: &mut Packet, code: u8, opts: &[(u16, Vec<u8>)], payload: &[u8]) {
        MinimalWritableMessage::set_code(p, MessageClass::from(code));
        for (n, v) in opts {
            MinimalWritableMessage::add_option(p, CoapOption::from(*n), v);
        }
        MinimalWritableMessage::set_payload(p, payload);
    }
    pub fn payload_with_len(p: &mut Packet, len: usize) -> usize {
        MutableWritableMessage::payload_mut_with_len(p, len).len()
    }
    #[allow(deprecated)]
    pub fn payload_mut_fill(p: &mut Packet, x: u8) {
        for b in MutableWritableMessage::payload_mut(p) {
            *b = x;
        }
    }
    pub fn truncate(p: &mut Packet, len: usize) {
        MutableWritableMessage::truncate(p, len)
    }
    pub fn mutate(p: &mut Packet) -> Vec<(u16, usize)> {
        let mut seen = Vec::new();
        MutableWritableMessage::mutate_options(p, |n, v| {
            seen.push((u16::from(n), v.len()));
            for b in v.iter_mut() {
                *b = b.wrapping_add(1);
            }
        });
        seen
    }
    pub fn available(p: &Packet) -> usize {
        MutableWritableMessage::available_space(p)
    }
}

mod v03 {
    use super::*;
    use coap_message_0_3::{
        Code, MessageOption, MinimalWritableMessage, MutableWritableMessage, OptionNumber,
        ReadableMessage, WithSortedOptions,
    };

    impl MessageOption for VecOpt<'_> {
        fn number(&self) -> u16 {
            self.0
        }
        fn value(&self) -> &[u8] {
            self.1
        }
    }
    impl ReadableMessage for VecMessage {
        type Code = u8;
        type MessageOption<'a> = VecOpt<'a>;
        type OptionsIter<'a> = std::vec::IntoIter<VecOpt<'a>>;
        fn code(&self) -> u8 {
            self.code
        }
        fn payload(&self) -> &[u8] {
            &self.payload
        }
        fn options(&self) -> Self::OptionsIter<'_> {
            self.options.iter().map(|(n, v)| VecOpt(*n, v)).collect::<Vec<_>>().into_iter()
        }
    }
    impl WithSortedOptions for VecMessage {}

    pub fn read_view(p: &Packet) -> (u8, Vec<(u16, Vec<u8>)>, Vec<u8>) {
        (
            u8::from(ReadableMessage::code(p)),
            ReadableMessage::options(p).map(|o| (o.number(), o.value().to_vec())).collect(),
            ReadableMessage::payload(p).to_vec(),
        )
    }
    pub fn copy_from_packet(src: &Packet) -> Packet {
        let mut dst = Packet::new();
        MinimalWritableMessage::set_from_message(&mut dst, src).unwrap();
        dst
    }
    pub fn copy_from_vec(src: &VecMessage) -> Packet {
        let mut dst = Packet::new();
        MinimalWritableMessage::set_from_message(&mut dst, src).unwrap();
        dst
    }
    pub fn write_ops(p: &mut Packet, code: u8, opts: &[(u16, Vec<u8>)], payload: &[u8]) {
        MinimalWritableMessage::set_code(p, <MessageClass as Code>::new(code).unwrap());
        for (n, v) in opts {
            MinimalWritableMessage::add_option(p, <CoapOption as OptionNumber>::new(*n).unwrap(), v).unwrap();
        }
        MinimalWritableMessage::set_payload(p, payload).unwrap();
    }
    pub fn payload_with_len(p: &mut Packet, len: usize) -> usize {
        MutableWritableMessage::payload_mut_with_len(p, len).unwrap().len()
    }
    pub fn truncate(p: &mut Packet, len: usize) {
        MutableWritableMessage::truncate(p, len).unwrap()
    }
    pub fn mutate(p: &mut Packet) -> Vec<(u16, usize)> {
        let mut seen = Vec::new();
        MutableWritableMessage::mutate_options(p, |n, v| {
            seen.push((u16::from(n), v.len()));
            for b in v.iter_mut() {
                *b = b.wrapping_add(1);
            }
        });
        seen
    }
    pub fn available(p: &Packet) -> usize {
        MutableWritableMessage::available_space(p)
    }
    pub fn code_new(b: u8) -> u8 {
        u8::from(<MessageClass as Code>::new(b).unwrap())
    }
    pub fn option_new(n: u16) -> u16 {
        u16::from(<CoapOption as OptionNumber>::new(n).unwrap())
    }
}

#[derive(Clone, Debug, Serialize, Deserialize, Hash)]
pub struct TraitCase {
    pub spec: MsgSpec,
    pub new_len: u16,
    pub trunc: u16,
}

pub fn check_traits(_ctx: &Ctx, c: &TraitCase, acc: &mut Acc) -> Result<(), Fail> {
    let m = c.spec.msg();
    let mut p = from_msg(&m);
    // leave some option numbers behind with an empty value list (what
    // clear_option does): they hold no option and must not disturb the views
    let cleared: Vec<u16> = match c.new_len % 4 {
        0 => vec![],
        1 => vec![0],
        2 => vec![m.options.first().map(|o| o.0.saturating_sub(1)).unwrap_or(5), 65535],
        _ if c.trunc % 3 == 0 => {
            // a run of adjacent numbers below the last option
            let top = m.options.last().map(|o| o.0).unwrap_or(40);
            let lo = top.saturating_sub(4);
            (lo..top).collect()
        }
        _ => m.options.iter().map(|o| o.0.wrapping_add(1)).take(2).collect(),
    };
    for n in &cleared {
        if m.options.iter().any(|o| o.0 == *n) {
            continue;
        }
        p.add_option(CoapOption::from(*n), vec![1, 2, 3]);
        p.clear_option(CoapOption::from(*n));
        acc.class("cleared-option-number-present");
    }
    let want = (m.code, m.options.clone(), m.payload.clone());
    for (ver, view) in [("0.2", v02::read_view(&p)), ("0.3", v03::read_view(&p))] {
        ensure!(
            view.0 == want.0,
            "c19-trait-code",
            "coap-message {ver}: code() = {:#04x}, raw code {:#04x}",
            view.0,
            want.0
        );
        ensure!(
            view.1 == want.1,
            "c19-trait-options",
            "coap-message {ver}: options() yields {:?}, raw state (ascending numbers, per-number order) {:?}",
            view.1.iter().map(|(n, v)| (*n, v.len())).collect::<Vec<_>>(),
            want.1.iter().map(|(n, v)| (*n, v.len())).collect::<Vec<_>>()
        );
        ensure!(view.2 == want.2, "c19-trait-payload", "coap-message {ver}: payload() differs from the raw payload");
    }
    // copies through the generic interface
    let vm = VecMessage { code: m.code, options: m.options.clone(), payload: m.payload.clone() };
    let copies = [
        ("0.2 from Packet", catch(|| v02::copy_from_packet(&p))),
        ("0.2 from VecMessage", catch(|| v02::copy_from_vec(&vm))),
        ("0.3 from Packet", catch(|| v03::copy_from_packet(&p))),
        ("0.3 from VecMessage", catch(|| v03::copy_from_vec(&vm))),
    ];
    for (what, r) in copies {
        let q = match r {
            Ok(q) => q,
            Err(msg) => fail!("c19-trait-copy-panic", "set_from_message ({what}) panicked: {msg}"),
        };
        let g = to_msg(&q);
        ensure!(
            g.code == m.code && g.options == m.options && g.payload == m.payload,
            "c19-trait-copy",
            "set_from_message ({what}) produced code {:#04x} options {:?} payload {}B; source code {:#04x} options {:?} payload {}B",
            g.code,
            g.options.iter().map(|(n, v)| (*n, v.len())).collect::<Vec<_>>(),
            g.payload.len(),
            m.code,
            m.options.iter().map(|(n, v)| (*n, v.len())).collect::<Vec<_>>(),
            m.payload.len()
        );
    }
    // writers act on the same state the raw API shows
    for ver in ["0.2", "0.3"] {
        let mut q = Packet::new();
        q.add_option(CoapOption::from(3), vec![1]);
        if c.trunc % 2 == 1 {
            // a payload from before: set_payload replaces it, also by nothing
            q.payload = vec![0xEE; 1 + c.trunc as usize % 9];
            acc.class("trait-writers-over-a-previous-payload");
        }
        let mut expect_opts = vec![(3u16, vec![1u8])];
        expect_opts.extend(m.options.iter().cloned());
        expect_opts.sort_by_key(|o| o.0);
        if ver == "0.2" {
            v02::write_ops(&mut q, m.code, &m.options, &m.payload);
        } else {
            v03::write_ops(&mut q, m.code, &m.options, &m.payload);
        }
        let g = to_msg(&q);
        ensure!(
            g.code == m.code && g.options == expect_opts && g.payload == m.payload,
            "c19-trait-writers",
            "coap-message {ver}: set_code/add_option/set_payload left code {:#04x}, {} options, {}B payload in the raw state",
            g.code,
            g.options.len(),
            g.payload.len()
        );
        let n = c.new_len as usize % 700;
        let got_len = if ver == "0.2" { v02::payload_with_len(&mut q, n) } else { v03::payload_with_len(&mut q, n) };
        let mut want_payload = m.payload.clone();
        want_payload.resize(n, 0);
        ensure!(
            got_len == n && q.payload == want_payload,
            "c19-trait-payload-with-len",
            "coap-message {ver}: payload_mut_with_len({n}) returned {got_len} bytes, raw payload {}B (expected the old payload resized with zeros)",
            q.payload.len()
        );
        if ver == "0.2" {
            v02::payload_mut_fill(&mut q, 0x5A);
            want_payload.iter_mut().for_each(|b| *b = 0x5A);
            ensure!(q.payload == want_payload, "c19-trait-payload-mut", "coap-message 0.2: payload_mut does not alias the raw payload");
        }
        let t = c.trunc as usize % 800;
        if ver == "0.2" { v02::truncate(&mut q, t) } else { v03::truncate(&mut q, t) };
        want_payload.truncate(t);
        ensure!(
            q.payload == want_payload,
            "c19-trait-truncate",
            "coap-message {ver}: truncate({t}) left {}B, expected {}B",
            q.payload.len(),
            want_payload.len()
        );
        let seen = if ver == "0.2" { v02::mutate(&mut q) } else { v03::mutate(&mut q) };
        let want_seen: Vec<(u16, usize)> = expect_opts.iter().map(|(n, v)| (*n, v.len())).collect();
        ensure!(
            seen == want_seen,
            "c19-trait-mutate-visit",
            "coap-message {ver}: mutate_options visited {seen:?}, raw state has {want_seen:?}"
        );
        let bumped: Vec<(u16, Vec<u8>)> = expect_opts
            .iter()
            .map(|(n, v)| (*n, v.iter().map(|b| b.wrapping_add(1)).collect()))
            .collect();
        ensure!(
            to_msg(&q).options == bumped,
            "c19-trait-mutate",
            "coap-message {ver}: mutate_options did not change the raw option values in place"
        );
        let av = if ver == "0.2" { v02::available(&q) } else { v03::available(&q) };
        let _ = av;
    }
    ensure!(
        v03::code_new(m.code) == m.code,
        "c19-trait-code-new",
        "coap-message 0.3 Code::new({:#04x}) converts back to {:#04x}",
        m.code,
        v03::code_new(m.code)
    );
    for (n, _) in &m.options {
        ensure!(
            v03::option_new(*n) == *n,
            "c19-trait-option-new",
            "coap-message 0.3 OptionNumber::new({n}) converts back to {}",
            v03::option_new(*n)
        );
    }
    if m.options.len() >= 2 {
        acc.nontrivial(fp(c));
    }
    let mut nums: BTreeMap<u16, usize> = BTreeMap::new();
    for (n, _) in &m.options {
        *nums.entry(*n).or_default() += 1;
    }
    if nums.values().any(|c| *c >= 2) {
        acc.class("repeated-number");
    }
    acc.sample("trait-message", || json!(c));
    Ok(())
}

fn priors_for(kind: &str, n: usize) -> Vec<Prior> {
    let mut v = vec![Prior::Fresh];
    for i in [0usize, 1, n / 2, n - 1] {
        v.push(Prior::SetterBefore(i as u16));
    }
    match kind {
        "content-format" | "observe" => {
            v.push(Prior::RawBefore(vec![vec![42]]));
            v.push(Prior::RawBefore(vec![vec![]]));
            v.push(Prior::RawBefore(vec![vec![1, 2, 3, 4, 5]]));
            v.push(Prior::RawBefore(vec![vec![0x27, 0x10], vec![50]]));
            v.push(Prior::Parsed(vec![]));
            v.push(Prior::RawSamePadded);
        }
        "method" => v.push(Prior::RawBefore(vec![vec![0x45]])),
        _ => {}
    }
    v
}

pub fn run(ctx: &Ctx, rep: &mut Report) {
    rep.assume("registry tables and the reference encoder are part of the trusted base");
    let mut cases = Vec::new();
    for (kind, n) in [
        ("method", reg::methods().len()),
        ("status", reg::statuses().len()),
        ("content-format", reg::content_formats().len()),
        ("observe", reg::observe_actions().len()),
    ] {
        for i in 0..n {
            for prior in priors_for(kind, n) {
                cases.push(SetCase { kind: kind.to_string(), index: i as u16, prior });
            }
        }
    }
    run_list(
        ctx,
        rep,
        "named-value-setters",
        "every named method, status, content format and observe action through setter -> getter -> raw state -> encoded bytes, from a fresh packet, after the same setter with another value, after raw option bytes, and on a parsed packet; non-trivial = something was there before",
        true,
        cases,
        check_set,
    );
    run_list(
        ctx,
        rep,
        "all-code-bytes-through-getters",
        "all 256 code bytes through get_method / get_status (directly and via the parser): the registry name or UnKnown",
        true,
        (0..=255u8).collect(),
        check_code_getters,
    );
    // paths: exhaustive over a 4-letter alphabet up to length 6
    let alpha = ['/', 'a', '.', 'é'];
    let maxlen = 6usize;
    let total: usize = (0..=maxlen).map(|l| 4usize.pow(l as u32)).sum();
    run_enum_chunks(
        ctx,
        rep,
        "all-short-paths",
        "every path string of length 0..=6 over {'/', 'a', '.', 'é'} through set_path on a fresh request, on one that already has raw Uri-Path segments, and after another set_path; non-trivial = prior state or an empty segment",
        true,
        16,
        |c| {
            let lo = total * c / 16;
            let hi = total * (c + 1) / 16;
            (lo..hi).flat_map(move |i| {
                let mut idx = i;
                let mut s = String::new();
                for l in 0..=maxlen {
                    let n = 4usize.pow(l as u32);
                    if idx < n {
                        for _ in 0..l {
                            s.push(alpha[idx % 4]);
                            idx /= 4;
                        }
                        break;
                    }
                    idx -= n;
                }
                vec![
                    PathCase { path: s.clone(), prior_segments: vec![], prior_path: None },
                    PathCase { path: s.clone(), prior_segments: vec![b"old".to_vec(), vec![0xFF]], prior_path: None },
                    PathCase { path: s, prior_segments: vec![], prior_path: Some("x//y/".into()) },
                ]
            })
        },
        |ctx, c: &PathCase, acc| check_path(ctx, c, acc, true),
    );
    let n = ctx.cases(40_000, 5_000_000);
    run_prop(
        ctx,
        rep,
        "random-paths",
        "random path strings (Unicode, repeated slashes, long segments) with random prior state",
        n,
        || {
            (
                prop_oneof![
                    "[/a-c.é😁 %]{0,24}",
                    proptest::collection::vec("[a-z0-9é]{0,14}", 0..6).prop_map(|v| v.join("/")),
                    proptest::collection::vec("[a-z]{0,300}", 1..3).prop_map(|v| format!("/{}", v.join("/"))),
                ],
                proptest::collection::vec(proptest::collection::vec(any::<u8>(), 0..5), 0..3),
                proptest::option::of("[/ab]{0,6}"),
            )
                .prop_map(|(path, prior_segments, prior_path)| {
                    // sometimes the previous path reads (get_path) like the new
                    // one is written, with other segments behind it
                    let prior_path = match path.len() % 4 {
                        0 => Some(format!("/{path}")),
                        1 if path.starts_with('/') => Some(path[1..].to_string()),
                        _ => prior_path,
                    };
                    PathCase { path, prior_segments, prior_path }
                })
        },
        |ctx, c: &PathCase, acc| check_path(ctx, c, acc, false),
    );
    // raw reads: every byte string up to 2 bytes as the single value, then random lists
    run_enum_chunks(
        ctx,
        rep,
        "raw-option-bytes-through-getters",
        "every byte string of length 0..=2 as the only raw Observe / Content-Format / Uri-Path value, read through get_observe_flag, get_observe_value, get_content_format, get_path_as_vec; plus the empty option list",
        true,
        8,
        |c| {
            let total = 1 + 256 + 65536usize;
            let lo = total * c / 8;
            let hi = total * (c + 1) / 8;
            (lo..hi).map(|i| {
                if i == 0 {
                    vec![vec![]]
                } else if i <= 256 {
                    vec![vec![(i - 1) as u8]]
                } else {
                    let x = i - 257;
                    vec![vec![(x >> 8) as u8, x as u8]]
                }
            }).chain(if c == 0 { vec![vec![]] } else { vec![] })
        },
        |ctx, v: &Vec<Vec<u8>>, acc| check_raw_read(ctx, v, acc, true),
    );
    let n = ctx.cases(40_000, 5_000_000);
    run_prop(
        ctx,
        rep,
        "raw-option-lists-through-getters",
        "random lists of 0..3 raw values of length 0..=6 under Observe / Content-Format / Uri-Path",
        n,
        || proptest::collection::vec(proptest::collection::vec(prop_oneof![Just(0u8), Just(1u8), any::<u8>()], 0..=6), 0..3),
        |ctx, v: &Vec<Vec<u8>>, acc| check_raw_read(ctx, v, acc, false),
    );
    let n = ctx.cases(30_000, 4_000_000);
    run_prop(
        ctx,
        rep,
        "coap-message-trait-views",
        "random messages through coap-message 0.2 and 0.3: code()/options()/payload() against the model, set_from_message from a Packet and from a foreign message type, set_code/add_option/set_payload, payload_mut_with_len, truncate, mutate_options; non-trivial = >= 2 options",
        n,
        || {
            (msg_spec(6, 40, 300), any::<u16>(), any::<u16>())
                .prop_map(|(spec, new_len, trunc)| TraitCase { spec, new_len, trunc })
        },
        check_traits,
    );
}
