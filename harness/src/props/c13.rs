//! C13 — block option values encode and decode per RFC 7959 section 2.2.

use std::convert::TryFrom;

use coap_lite::block_handler::BlockValue;
use serde::{Deserialize, Serialize};
use serde_json::json;

use crate::engine::*;
use crate::pkt::hex;
use crate::props::c01::min_uint;
use crate::{ensure, fail};

#[derive(Clone, Debug, Serialize, Deserialize)]
pub struct Triple {
    pub num: u16,
    pub more: bool,
    pub szx: u8,
}

#[derive(Clone, Debug, Serialize, Deserialize)]
pub struct NewCase {
    pub num: u64,
    pub more: bool,
    pub size: u64,
}

pub fn check_triple(_ctx: &Ctx, t: &Triple, acc: &mut Acc) -> Result<(), Fail> {
    let bv = BlockValue {
        num: t.num,
        more: t.more,
        size_exponent: t.szx,
    };
    let size = match catch(|| bv.size()) {
        Ok(s) => s,
        Err(msg) => fail!("c13-size-panic", "size() panicked for {t:?}: {msg}"),
    };
    ensure!(
        size == 1usize << (t.szx + 4),
        "c13-size",
        "size() of szx {} is {size}, expected {}",
        t.szx,
        1usize << (t.szx + 4)
    );
    let scalar: u32 = (t.num as u32) << 4 | (t.more as u32) << 3 | t.szx as u32;
    let want = min_uint(scalar as u64);
    let got = match catch(|| Vec::<u8>::from(bv.clone())) {
        Ok(g) => g,
        Err(msg) => fail!("c13-encode-panic", "encoding {t:?} panicked: {msg}"),
    };
    ensure!(
        got == want,
        "c13-encoding",
        "{t:?} encodes as {}, RFC 7959 value NUM<<4|M<<3|SZX = {scalar:#x} is {}",
        hex(&got),
        hex(&want)
    );
    match catch(|| BlockValue::try_from(got.clone())) {
        Err(msg) => fail!("c13-decode-panic", "decoding {} panicked: {msg}", hex(&got)),
        Ok(Err(e)) => fail!("c13-roundtrip", "own encoding {} of {t:?} rejected: {}", hex(&got), e.message),
        Ok(Ok(back)) => ensure!(
            back == bv,
            "c13-roundtrip",
            "{t:?} -> {} -> {back:?}",
            hex(&got)
        ),
    }
    if t.num >= 4096 {
        acc.class("num>=4096 (third byte)");
        acc.nontrivial_enum();
    }
    acc.sample("triple", || json!({"case": t, "encoded": hex(&got)}));
    Ok(())
}

pub fn check_decode(_ctx: &Ctx, b: &Vec<u8>, acc: &mut Acc) -> Result<(), Fail> {
    let v = b.iter().fold(0u64, |a, &x| a << 8 | x as u64);
    let num = v >> 4;
    let minimal = b.first() != Some(&0);
    let want = BlockValue {
        num: num as u16,
        more: v & 8 != 0,
        size_exponent: (v & 7) as u8,
    };
    let got = match catch(|| BlockValue::try_from(b.clone())) {
        Ok(g) => g,
        Err(msg) => fail!("c13-decode-panic", "decoding {} panicked: {msg}", hex(b)),
    };
    if num > 65535 {
        acc.class("num-unrepresentable");
        ensure!(
            got.is_err(),
            "c13-unrepresentable-num-accepted",
            "{} (NUM {num}) decoded as {got:?}; the type cannot hold that block number",
            hex(b)
        );
    } else {
        match got {
            Ok(g) => ensure!(
                g == want,
                "c13-decode-value",
                "{} decoded as {g:?}, RFC 7959 says {want:?}",
                hex(b)
            ),
            Err(e) => ensure!(
                !minimal,
                "c13-valid-rejected",
                "minimal-length block value {} (NUM {num}) rejected: {}",
                hex(b),
                e.message
            ),
        }
    }
    if !minimal {
        acc.class("leading-zero");
    }
    if b.len() == 3 {
        acc.class("three-bytes");
        acc.nontrivial_enum();
    }
    acc.sample("decode", || json!(hex(b)));
    Ok(())
}

pub fn check_new(_ctx: &Ctx, c: &NewCase, acc: &mut Acc) -> Result<(), Fail> {
    let (num, size) = (c.num as usize, c.size as usize);
    let got = match catch(|| BlockValue::new(num, c.more, size)) {
        Ok(g) => g,
        Err(msg) => fail!("c13-new-panic", "BlockValue::new({num}, {}, {size}) panicked: {msg}", c.more),
    };
    let must_fail = size == 0 || size >= 4096 || num > 65535;
    match got {
        Err(_) => ensure!(
            must_fail,
            "c13-new-refused",
            "BlockValue::new({num}, {}, {size}) failed although num and size are representable",
            c.more
        ),
        Ok(bv) => {
            ensure!(
                !must_fail,
                "c13-new-accepted-invalid",
                "BlockValue::new({num}, {}, {size}) returned {bv:?} instead of failing",
                c.more
            );
            let log2 = (usize::BITS - 1 - size.leading_zeros()) as u8;
            let szx = log2.max(4) - 4;
            ensure!(
                bv.num as usize == num && bv.more == c.more && bv.size_exponent == szx,
                "c13-new-value",
                "BlockValue::new({num}, {}, {size}) = {bv:?}, expected szx {szx} (largest power of two not above the size, at least 16)",
                c.more
            );
        }
    }
    // no memory of earlier calls: the same call again gives the same answer,
    // and size 0 is refused whatever was asked just before
    let again = catch(|| BlockValue::new(num, c.more, size)).ok().map(|r| r.ok());
    let first = catch(|| BlockValue::new(num, c.more, size)).ok().map(|r| r.ok());
    ensure!(again == first, "c13-new-not-repeatable", "BlockValue::new({num}, {}, {size}) gives different answers when repeated: {again:?} / {first:?}", c.more);
    ensure!(
        matches!(catch(|| BlockValue::new(num, c.more, 0)), Ok(Err(_))),
        "c13-new-accepted-invalid",
        "BlockValue::new({num}, {}, 0) right after a call with size {size} did not fail",
        c.more
    );
    if !size.is_power_of_two() || size < 16 || must_fail {
        acc.nontrivial_enum();
    }
    if size < 16 {
        acc.class("size<16");
    }
    if must_fail {
        acc.class("must-fail");
    }
    acc.sample("new", || json!(c));
    Ok(())
}

pub fn run(ctx: &Ctx, rep: &mut Report) {
    rep.assume("RFC 7959 section 2.2: option value is the minimal-length uint NUM<<4 | M<<3 | SZX; size exponent 7 (reserved by the RFC) is within the stated domain");
    run_enum_chunks(
        ctx,
        rep,
        "all-triples-encode-decode",
        "every (num 0..=65535, more, szx 0..=7): encoding equals the reference, decodes back, size() = 2^(szx+4); non-trivial = num >= 4096 (needs the third byte)",
        true,
        64,
        |c| {
            (c as u32 * 1024..(c as u32 + 1) * 1024).flat_map(|num| {
                (0..16u8).map(move |x| Triple {
                    num: num as u16,
                    more: x & 8 != 0,
                    szx: x & 7,
                })
            })
        },
        check_triple,
    );
    let k = ctx.pick(3usize, 3usize);
    let total: u64 = (0..=k).map(|l| 256u64.pow(l as u32)).sum();
    run_enum_chunks(
        ctx,
        rep,
        "decode-all-strings-up-to-3-bytes",
        "every byte string of length 0..=3 decoded: NUM > 65535 must be refused, a minimal-length value must decode to the RFC triple, a value with leading zeros may be refused or decoded correctly; non-trivial = three-byte strings",
        true,
        64,
        |c| {
            let lo = total * c as u64 / 64;
            let hi = total * (c as u64 + 1) / 64;
            (lo..hi).map(move |i| {
                let mut idx = i;
                for l in 0..=k {
                    let n = 256u64.pow(l as u32);
                    if idx < n {
                        let mut bytes = vec![0u8; l];
                        for j in (0..l).rev() {
                            bytes[j] = (idx & 0xff) as u8;
                            idx >>= 8;
                        }
                        return bytes;
                    }
                    idx -= n;
                }
                unreachable!()
            })
        },
        check_decode,
    );
    let mut nums: Vec<u64> = (0..=4097).collect();
    nums.extend([65534, 65535, 65536, 65537, 1 << 20, u32::MAX as u64, usize::MAX as u64]);
    let mut sizes: Vec<u64> = (0..=8200).collect();
    for k in 13..64 {
        let p = 1u64 << k;
        sizes.extend([p - 1, p, p + 1]);
    }
    sizes.push(u64::MAX);
    let nums_ref = &nums;
    let sizes_ref = &sizes;
    run_enum_chunks(
        ctx,
        rep,
        "construction-from-byte-size",
        "BlockValue::new over num in {0..=4097, 65534.., 2^20, usize::MAX} x size in {0..=8200, every 2^k and 2^k+-1 up to usize::MAX} x more; non-trivial = size not a power of two, below 16, or a must-fail input",
        true,
        nums.len(),
        |c| {
            let num = nums_ref[c];
            let step = if num <= 2 || num >= 4095 { 1 } else { 97 };
            sizes_ref
                .iter()
                .enumerate()
                .filter(move |(i, s)| i % step == 0 || **s > 8200 || s.is_power_of_two())
                .map(move |(_, &size)| NewCase {
                    num,
                    more: (size ^ num) & 1 == 1,
                    size,
                })
        },
        check_new,
    );
}
