//! C10 — block-wise messages respect the size budget and the client's block size.

use coap_lite::BlockHandler;
use proptest::prelude::*;
use serde::{Deserialize, Serialize};
use serde_json::json;

use crate::blockwise::*;
use crate::engine::*;
use crate::{ensure, fail};

#[derive(Clone, Debug, PartialEq, Eq, Hash, Serialize, Deserialize)]
pub struct Case {
    pub upload: bool,
    pub budget: usize,
    pub token_len: u8,
    pub con: bool,
    pub method: u8,
    pub path: Vec<Vec<u8>>,
    pub req_extra: Vec<(u16, Vec<u8>)>,
    pub resp_options: Vec<(u16, Vec<u8>)>,
    /// client's size exponent (0..=7), None = no block option in the first request
    pub client_szx: Option<u8>,
    pub body_len: usize,
    pub reply_len: usize,
    /// downloads: after block 0 jump to the block numbers where the option
    /// value grows (15/16, 255/256, 4095/4096) and to the last block
    #[serde(default)]
    pub high_blocks: bool,
    /// downloads: after block 0 the client lowers its block size by this many
    /// exponent steps (as far as possible)
    #[serde(default)]
    pub reduce: u8,
    /// uploads: every request also carries a Block2 option (block 0) with this
    /// size exponent, the client's preference for a large reply
    #[serde(default)]
    pub upload_block2: Option<u8>,
    /// code of the application's reply when it is not the usual 2.05 / 2.04
    /// (error replies are fragmented and budgeted like any other)
    #[serde(default)]
    pub reply_code: Option<u8>,
    /// uploads: from the second block on every request carries one more
    /// option of this many bytes (the acknowledged size has to follow)
    #[serde(default)]
    pub late_extra: u16,
    /// downloads without a client size: an earlier download of the same body
    /// with one more response option was abandoned after its first block
    #[serde(default)]
    pub pre_abandoned: bool,
}

impl Case {
    fn request(&self, mid: u16, block1: Option<Vec<u8>>, block2: Option<Vec<u8>>, payload: Vec<u8>) -> ReqSpec {
        ReqSpec {
            mtype: if self.con { 0 } else { 1 },
            token: vec![0x42; self.token_len.min(8) as usize],
            mid,
            method: self.method,
            path: self.path.clone(),
            extra: self.req_extra.clone(),
            block1,
            block2,
            payload,
        }
    }
    fn reply(&self) -> AppSpec {
        AppSpec {
            code: self.reply_code.unwrap_or(if self.upload { 0x44 } else { 0x45 }),
            options: self.resp_options.clone(),
            body: body(if self.upload { self.reply_len } else { self.body_len }, 7),
        }
    }
    /// Overheads as the statement means them: encoded size without payload,
    /// marker and the block option the handler is about to add.
    pub fn request_overhead(&self) -> usize {
        // the request's own block option is part of what the client sends
        let b1 = if self.upload { Some(block_bytes(0xFFFF, true, 6)) } else { None };
        let b2 = if !self.upload { Some(block_bytes(0xFFFF, false, 6)) } else { None };
        let mut r = self.request(0, b1, b2, vec![]);
        if self.upload && self.late_extra > 0 {
            // the larger of the transfer's requests counts
            r.extra.push((65000, vec![7; self.late_extra as usize]));
        }
        r.overhead()
    }
    pub fn response_overhead(&self) -> usize {
        let mut o = self.reply().overhead(self.token_len as usize);
        if self.upload {
            o += 4; // the Block1 acknowledgement the final response carries
        }
        o
    }
    pub fn min_budget(&self) -> usize {
        self.request_overhead().max(self.response_overhead()) + 28
    }
}

fn check_block_size(what: &str, b: &Block, client: Option<u8>, ctx: &str) -> Result<(), Fail> {
    ensure!(
        b.szx <= 6,
        "c10-size-out-of-range",
        "{what}: block size exponent {} means {} bytes, outside 16..=1024 ({ctx})",
        b.szx,
        b.size()
    );
    if let Some(c) = client {
        ensure!(
            b.szx <= c,
            "c10-size-above-client",
            "{what}: block size {} is larger than the {} the client asked for ({ctx})",
            b.size(),
            16usize << c
        );
    }
    Ok(())
}

fn run_download(c: &Case, acc: &mut Acc) -> Result<bool, Fail> {
    let mut handler: BlockHandler<u8> = new_handler(c.budget, HOUR);
    let reply = c.reply();
    let resp_overhead = reply.overhead(c.token_len as usize);
    let mut mid = 1u16;
    let mut received = 0usize;
    let mut req_b2 = c.client_szx.map(|s| block_bytes(0, false, s));
    let mut client_now = c.client_szx;
    let mut blocks = 0usize;
    let mut near = false;
    let mut last_szx: Option<u8> = None;
    if c.pre_abandoned && c.client_szx.is_none() {
        // an earlier download of the same body, with one more response
        // option, that stopped after its first block
        let mut earlier = reply.clone();
        earlier.options.push((4, vec![0xE7; 8]));
        mid += 1;
        let req = c.request(mid, None, None, vec![]);
        let out = exchange(&mut handler, &req.msg().encode().unwrap(), 1, &mut |_r| Some(earlier.clone()));
        if let Some(msg) = out.panicked() {
            fail!("c10-panic", "handler panicked on the earlier download: {msg}");
        }
        acc.class("download:after-an-abandoned-one-with-more-options");
    }
    loop {
        mid += 1;
        let req = c.request(mid, None, req_b2.clone(), vec![]);
        let out = exchange(&mut handler, &req.msg().encode().unwrap(), 1, &mut |_r| Some(reply.clone()));
        let ctx = format!(
            "download, budget {}, response overhead {resp_overhead}, request overhead {}, client szx {:?}, body {}, block {blocks}",
            c.budget,
            req.overhead(),
            c.client_szx,
            c.body_len
        );
        if let Some(msg) = out.panicked() {
            fail!("c10-panic", "handler panicked ({ctx}): {msg}");
        }
        if let Step::Err(e) = &out.intercept_request {
            fail!("c10-handler-error", "intercept_request failed inside the stated domain: {:?} {:?} ({ctx})", e.code, e.message);
        }
        if let Some(Step::Err(e)) = &out.intercept_response {
            fail!("c10-handler-error", "intercept_response failed inside the stated domain: {:?} {:?} ({ctx})", e.code, e.message);
        }
        let (resp, bytes) = match (&out.response, &out.response_bytes) {
            (Some(r), Some(b)) => (r, b),
            _ => fail!("c10-no-response", "no response ({ctx}): {:?}", out.trouble),
        };
        ensure!(
            bytes.len() <= c.budget,
            "c10-response-exceeds-budget",
            "a {} response of {} encoded bytes exceeds the budget {} ({ctx})",
            if find_opt(resp, OPT_BLOCK2).is_some() { "fragmented" } else { "unfragmented" },
            bytes.len(),
            c.budget
        );
        let b = match find_opt(resp, OPT_BLOCK2) {
            None => {
                acc.class("download:unfragmented");
                break;
            }
            Some(raw) => match parse_block(raw) {
                Some(b) => b,
                None => fail!("c10-block-malformed", "malformed Block2 in response ({ctx})"),
            },
        };
        check_block_size("Block2", &b, client_now, &ctx)?;
        if blocks == 0 {
            if let Some(cs) = c.client_szx {
                let client_size = 16usize << cs;
                if client_size + resp_overhead + 32 <= c.budget && cs <= 6 {
                    acc.class("client-size-fits-with-32-spare");
                    ensure!(
                        b.szx == cs,
                        "c10-client-size-not-honoured",
                        "the client asked for {client_size}-byte blocks, which fit the budget with {} bytes to spare, but {} was used ({ctx})",
                        c.budget - resp_overhead - client_size,
                        b.size()
                    );
                } else {
                    acc.class("client-size-does-not-fit");
                    near = true;
                }
            }
            for k in 4..=10 {
                let edge = resp_overhead + 12 + (1usize << k);
                if (c.budget as i64 - edge as i64).abs() <= 3 {
                    near = true;
                }
            }
        }
        received += resp.payload.len();
        blocks += 1;
        if !b.more {
            break;
        }
        if blocks == 1 && c.pre_abandoned && c.path.len() >= 2 {
            // between two blocks another download starts on a path that only
            // looks like this one (the segments joined into one); its reply
            // has more option overhead
            let mut other = reply.clone();
            other.options.push((4, vec![0xE8; 8]));
            other.options.push((8, vec![0x61; 6]));
            mid += 1;
            let mut req = c.request(mid, None, None, vec![]);
            req.path = vec![c.path.join(&b'/')];
            let out = exchange(&mut handler, &req.msg().encode().unwrap(), 1, &mut |_r| Some(other.clone()));
            if let Some(msg) = out.panicked() {
                fail!("c10-panic", "handler panicked on a download of a look-alike path: {msg}");
            }
            acc.class("download:look-alike-path-started-between-blocks");
        }
        if c.high_blocks {
            // jump through the block numbers where the Block2 value changes length
            let last = ((c.body_len - 1) / b.size()) as u32;
            let probes: Vec<u32> = [1u32, 15, 16, 255, 256, 4095, 4096, 65535, last]
                .into_iter()
                .filter(|n| *n <= last && *n <= 65535)
                .collect();
            for n in probes {
                mid = mid.wrapping_add(1);
                let req = c.request(mid, None, Some(block_bytes(n, false, b.szx)), vec![]);
                let out = exchange(&mut handler, &req.msg().encode().unwrap(), 1, &mut |_r| Some(reply.clone()));
                if let Some(msg) = out.panicked() {
                    fail!("c10-panic", "handler panicked on block {n} ({ctx}): {msg}");
                }
                let Some(bytes) = &out.response_bytes else { continue };
                ensure!(
                    bytes.len() <= c.budget,
                    "c10-response-exceeds-budget",
                    "block {n} of a long download encodes to {} bytes, over the budget {} ({ctx})",
                    bytes.len(),
                    c.budget
                );
                if let Some(r) = &out.response {
                    if let Some(bb) = find_opt(r, OPT_BLOCK2).and_then(|x| parse_block(x)) {
                        check_block_size("Block2", &bb, Some(b.szx), &ctx)?;
                    }
                }
                acc.class("download:high-block-number-probe");
                if n == last {
                    break;
                }
            }
            break;
        }
        ensure!(blocks <= c.body_len / 16 + 3, "c10-no-progress", "download does not finish ({ctx})");
        // the client continues with the size the server used (never raising
        // it), or lowers it once after the first block
        let ns = if blocks == 1 && c.reduce > 0 && b.szx > 0 {
            acc.class("download:client-lowers-size-mid-transfer");
            b.szx.saturating_sub(c.reduce)
        } else {
            b.szx
        };
        client_now = Some(ns);
        last_szx = Some(ns);
        req_b2 = Some(block_bytes((received / (16usize << ns)) as u32, false, ns));
    }
    if let (true, Some(s)) = (blocks >= 2, last_szx) {
        // a client that comes back for a block after the transfer is over (its
        // cache entry is gone): whatever the handler fragments then is bound by
        // the size asked for in that request
        for (n, szx) in [(1u32, s), (3, s.saturating_sub(2)), (0, s.saturating_sub(1))] {
            mid = mid.wrapping_add(1);
            let req = c.request(mid, None, Some(block_bytes(n, false, szx)), vec![]);
            let out = exchange(&mut handler, &req.msg().encode().unwrap(), 1, &mut |_r| Some(reply.clone()));
            let ctx = format!(
                "late request for block {n} with size exponent {szx} after a finished download, budget {}, response overhead {resp_overhead}, first request {:?}, body {}",
                c.budget, c.client_szx, c.body_len
            );
            if let Some(msg) = out.panicked() {
                fail!("c10-panic", "handler panicked ({ctx}): {msg}");
            }
            if let (Some(r), Some(bytes)) = (&out.response, &out.response_bytes) {
                ensure!(
                    bytes.len() <= c.budget,
                    "c10-response-exceeds-budget",
                    "a response of {} encoded bytes exceeds the budget ({ctx})",
                    bytes.len()
                );
                if let Some(bb) = find_opt(r, OPT_BLOCK2).and_then(|x| parse_block(x)) {
                    check_block_size("Block2", &bb, Some(szx), &ctx)?;
                    acc.class("download:late-request-fragmented");
                }
            }
            // run the restarted transfer to its end so that the next probe
            // starts without a cache entry again
            let mut guard = 0;
            let mut cur = out.response.clone();
            let mut next = n;
            while let Some(bb) = cur.as_ref().and_then(|r| find_opt(r, OPT_BLOCK2)).and_then(|x| parse_block(x)) {
                if !bb.more || guard > c.body_len / 16 + 3 {
                    break;
                }
                guard += 1;
                next = if bb.num >= next { bb.num + 1 } else { next + 1 };
                mid = mid.wrapping_add(1);
                let req = c.request(mid, None, Some(block_bytes(next, false, bb.szx)), vec![]);
                let o = exchange(&mut handler, &req.msg().encode().unwrap(), 1, &mut |_r| Some(reply.clone()));
                if let Some(msg) = o.panicked() {
                    fail!("c10-panic", "handler panicked ({ctx}, continuing at block {next}): {msg}");
                }
                if let (Some(r), Some(bytes)) = (&o.response, &o.response_bytes) {
                    ensure!(
                        bytes.len() <= c.budget,
                        "c10-response-exceeds-budget",
                        "a response of {} encoded bytes exceeds the budget ({ctx}, continuing at block {next})",
                        bytes.len()
                    );
                    if let Some(b3) = find_opt(r, OPT_BLOCK2).and_then(|x| parse_block(x)) {
                        check_block_size("Block2", &b3, Some(bb.szx), &ctx)?;
                    }
                }
                cur = o.response.clone();
            }
        }
    }
    if blocks >= 2 {
        acc.class("download:fragmented");
    }
    Ok(near)
}

fn run_upload(c: &Case, acc: &mut Acc) -> Result<bool, Fail> {
    let mut handler: BlockHandler<u8> = new_handler(c.budget, HOUR);
    let reply = c.reply();
    let data = body(c.body_len, 5);
    let mut mid = 1u16;
    let mut near = false;
    let probe_overhead = c.request(0, Some(block_bytes(0, true, 0)), None, vec![]).overhead();
    match c.client_szx {
        None => {
            // no Block1: either processed (fits) or 4.13 with a size hint
            mid += 1;
            let req = c.request(mid, None, None, data.clone());
            let out = exchange(&mut handler, &req.msg().encode().unwrap(), 1, &mut |_r| Some(reply.clone()));
            let ctx = format!("plain request, budget {}, overhead {}, payload {}", c.budget, req.overhead(), data.len());
            if let Some(msg) = out.panicked() {
                fail!("c10-panic", "handler panicked ({ctx}): {msg}");
            }
            if let (Some(resp), Some(bytes)) = (&out.response, &out.response_bytes) {
                ensure!(
                    bytes.len() <= c.budget,
                    "c10-response-exceeds-budget",
                    "response of {} bytes exceeds the budget ({ctx})",
                    bytes.len()
                );
                if resp.code == 0x8D {
                    acc.class("upload:4.13-hint");
                    near = true;
                    let b = match find_opt(resp, OPT_BLOCK1).and_then(|x| parse_block(x)) {
                        Some(b) => b,
                        None => fail!("c10-block-malformed", "4.13 without a valid Block1 hint ({ctx})"),
                    };
                    check_block_size("Block1 hint", &b, None, &ctx)?;
                    let next = c.request(mid + 1, Some(block_bytes(0, true, b.szx)), None, vec![0; b.size()]);
                    let len = next.msg().wire_len().unwrap();
                    ensure!(
                        len <= c.budget,
                        "c10-hinted-block-exceeds-budget",
                        "an upload block of the hinted size {} encodes to {len} bytes, over the budget ({ctx})",
                        b.size()
                    );
                }
            }
        }
        Some(cs) => {
            let mut szx = cs;
            let mut offset = 0usize;
            let mut blocks = 0usize;
            loop {
                let size = 16usize << szx;
                let end = (offset + size).min(data.len());
                let is_final = end == data.len();
                mid += 1;
                let num = (offset / size) as u32;
                let want_b2 = c.upload_block2.map(|s| block_bytes(0, false, s));
                let mut req = c.request(mid, Some(block_bytes(num, !is_final, szx)), want_b2, data[offset..end].to_vec());
                if blocks >= 1 && c.late_extra > 0 {
                    req.extra.push((65000, vec![7; c.late_extra as usize]));
                    acc.class("upload:later-blocks-carry-one-more-option");
                }
                let out = exchange(&mut handler, &req.msg().encode().unwrap(), 1, &mut |_r| Some(reply.clone()));
                let ctx = format!(
                    "upload, budget {}, request overhead {}, client szx {cs}, current szx {szx}, block {num}{}",
                    c.budget,
                    req.overhead(),
                    if is_final { " (final)" } else { "" }
                );
                if let Some(msg) = out.panicked() {
                    fail!("c10-panic", "handler panicked ({ctx}): {msg}");
                }
                if let Step::Err(e) = &out.intercept_request {
                    fail!("c10-handler-error", "intercept_request failed inside the stated domain: {:?} {:?} ({ctx})", e.code, e.message);
                }
                if let Some(Step::Err(e)) = &out.intercept_response {
                    fail!("c10-handler-error", "intercept_response failed inside the stated domain: {:?} {:?} ({ctx})", e.code, e.message);
                }
                let (resp, bytes) = match (&out.response, &out.response_bytes) {
                    (Some(r), Some(b)) => (r, b),
                    _ => fail!("c10-no-response", "no response ({ctx}): {:?}", out.trouble),
                };
                ensure!(
                    bytes.len() <= c.budget,
                    "c10-response-exceeds-budget",
                    "the reply to an upload block has {} encoded bytes, over the budget ({ctx})",
                    bytes.len()
                );
                let b = match find_opt(resp, OPT_BLOCK1).and_then(|x| parse_block(x)) {
                    Some(b) => b,
                    None => fail!("c10-block-malformed", "reply to an upload block carries no valid Block1 ({ctx})"),
                };
                check_block_size("Block1 acknowledgement", &b, Some(szx), &ctx)?;
                if let (Some(s2), Some(b2)) = (c.upload_block2, find_opt(resp, OPT_BLOCK2).and_then(|x| parse_block(x))) {
                    // the reply to the upload is itself fragmented: bound by the
                    // Block2 preference sent along with the upload
                    acc.class("upload:reply-fragmented-with-client-block2");
                    near = true;
                    check_block_size("Block2 of the reply to an upload", &b2, Some(s2), &ctx)?;
                    let client_size = 16usize << s2;
                    if s2 <= 6 && client_size + c.response_overhead() + 32 <= c.budget {
                        ensure!(
                            b2.szx == s2,
                            "c10-client-size-not-honoured",
                            "the upload asked for its reply in {client_size}-byte blocks, which fit the budget with at least 32 bytes to spare, but {} was used ({ctx})",
                            b2.size()
                        );
                    }
                }
                if blocks == 0 {
                    let client_size = 16usize << cs;
                    if cs <= 6 && client_size + probe_overhead.max(req.overhead()) + 32 <= c.budget {
                        acc.class("client-size-fits-with-32-spare");
                        ensure!(
                            b.szx == cs,
                            "c10-client-size-not-honoured",
                            "the client uploads {client_size}-byte blocks, which fit the budget with at least 32 bytes to spare, but the server acknowledged size {} ({ctx})",
                            b.size()
                        );
                    } else {
                        acc.class("client-size-does-not-fit");
                        near = true;
                    }
                    for k in 4..=10 {
                        let edge = req.overhead() + 12 + (1usize << k);
                        if (c.budget as i64 - edge as i64).abs() <= 3 {
                            near = true;
                        }
                    }
                }
                offset = end;
                blocks += 1;
                if is_final {
                    break;
                }
                // the client's next block, with the size as acknowledged
                let nsz = b.size();
                let next_end = (offset + nsz).min(data.len());
                let mut next = c.request(
                    mid + 1,
                    Some(block_bytes((offset / nsz) as u32, next_end != data.len(), b.szx)),
                    None,
                    vec![0; nsz],
                );
                // (the next block looks like the one just acknowledged)
                next.extra = req.extra.clone();
                let len = next.msg().wire_len().unwrap();
                ensure!(
                    len <= c.budget,
                    "c10-next-upload-block-exceeds-budget",
                    "the client's next upload block at the acknowledged size {nsz} encodes to {len} bytes, over the budget {} ({ctx})",
                    c.budget
                );
                // offset is a multiple of the old size, which the new size divides
                szx = b.szx;
                ensure!(blocks <= c.body_len / 16 + 3, "c10-no-progress", "upload does not finish ({ctx})");
            }
            if blocks >= 2 {
                acc.class("upload:multi-block");
            }
        }
    }
    Ok(near)
}

pub fn check(_ctx: &Ctx, c: &Case, acc: &mut Acc, enumerated: bool) -> Result<(), Fail> {
    if c.budget < c.min_budget() || c.budget > 1280 {
        acc.class("skipped-budget-outside-domain");
        return Ok(());
    }
    let near = if c.upload { run_upload(c, acc)? } else { run_download(c, acc)? };
    if near {
        if enumerated {
            acc.nontrivial_enum();
        } else {
            acc.nontrivial(fp(c));
        }
    }
    if c.client_szx == Some(7) {
        acc.class("client-szx-7");
    }
    acc.sample(if c.upload { "upload" } else { "download" }, || json!(c));
    Ok(())
}

fn case() -> BoxedStrategy<Case> {
    (
        (any::<bool>(), 0u8..=8, any::<bool>(), crate::props::c08::path()),
        (
            proptest::collection::vec(
                (proptest::sample::select(vec![12u16, 17, 15, 60, 2048, 35]), proptest::collection::vec(any::<u8>(), 0..40)),
                0..3,
            ),
            crate::props::c08::response_options(),
        ),
        (proptest::option::weighted(0.75, 0u8..=7), crate::props::c08::body_len(), 0usize..40),
        (0u8..8, any::<u16>()),
    )
        .prop_map(|((upload, token_len, con, path), (req_extra, resp_options), (client_szx, body_len, reply_len), (kind, r))| {
            let mut c = Case {
                upload,
                budget: 0,
                token_len,
                con,
                method: if upload { 3 } else { 1 },
                path,
                req_extra,
                resp_options,
                client_szx,
                body_len: body_len.min(6000),
                reply_len: if upload && r & 0x3000 == 0x3000 { 40 + (r as usize >> 3) % 1500 } else { reply_len },
                high_blocks: false,
                reduce: if r & 0x4000 != 0 { 1 + (r >> 12 & 3) as u8 } else { 0 },
                upload_block2: if upload && r & 0x3000 == 0x3000 { Some((r >> 5) as u8 % 7) } else { None },
                reply_code: if r % 5 == 0 { Some([0x84u8, 0xA0, 0x41, 0x9F][(r as usize >> 3) % 4]) } else { None },
                late_extra: if upload && r % 7 == 3 { 12 + (r >> 6) % 40 } else { 0 },
                pre_abandoned: !upload && r % 3 == 1,
            };
            let lo = c.min_budget();
            let hi = 1280usize;
            let overhead = if upload { c.request_overhead() } else { c.reply().overhead(token_len as usize) };
            c.budget = if lo >= hi {
                lo
            } else {
                let pick = match kind {
                    0 => lo + r as usize % 4,
                    5 => {
                        // anywhere in the 0..=36 bytes above overhead + 2^k
                        let k = 4 + (r as usize % 7);
                        overhead + (1usize << k) + (r as usize >> 4) % 37
                    }
                    1 => hi - r as usize % 3,
                    2 | 3 | 4 => {
                        let k = 4 + (r as usize % 7);
                        let base = if r & 0x100 != 0 { 12 } else { 32 };
                        (overhead + base + (1usize << k) + (r as usize >> 9) % 7).saturating_sub(3)
                    }
                    _ => lo + r as usize % (hi - lo + 1),
                };
                pick.clamp(lo, hi)
            };
            c
        })
        .boxed()
}

pub fn run(ctx: &Ctx, rep: &mut Report) {
    rep.assume("domain as stated: budgets from max(request overhead, response overhead) + 28 to 1280; the client keeps one token length and never raises the block size above the one the server used; application replies carry no Block2 option of their own");
    // bands around every threshold, exhaustively, for a fixed message shape
    let mut cases = Vec::new();
    for upload in [false, true] {
        for client_szx in [None, Some(0u8), Some(2), Some(4), Some(6), Some(7)] {
            let mut base = Case {
                upload,
                budget: 0,
                token_len: 4,
                con: true,
                method: if upload { 3 } else { 1 },
                path: vec![b"res".to_vec(), b"x".to_vec()],
                req_extra: vec![],
                resp_options: vec![(4, vec![9; 8]), (12, vec![50])],
                client_szx,
                body_len: 2500,
                reply_len: 3,
                high_blocks: false,
                reduce: 0,
                upload_block2: None,
                reply_code: None,
                late_extra: 0,
                pre_abandoned: false,
            };
            let overhead = if upload { base.request_overhead() } else { base.reply().overhead(4) };
            let lo = base.min_budget();
            let mut budgets: Vec<usize> = Vec::new();
            for k in 4..=10 {
                for add in [12usize, 32] {
                    let edge = overhead + add + (1usize << k);
                    budgets.extend(edge.saturating_sub(3)..=edge + 3);
                }
            }
            budgets.extend(lo..lo + 6);
            budgets.extend(1275..=1280);
            budgets.sort();
            budgets.dedup();
            for b in budgets {
                if b >= lo && b <= 1280 {
                    base.budget = b;
                    cases.push(base.clone());
                }
            }
        }
    }
    run_list(
        ctx,
        rep,
        "budget-bands-around-thresholds",
        "for downloads and uploads of a fixed message shape: every budget within +-3 of overhead + 12 + 2^k and overhead + 32 + 2^k (k = 4..=10), the six lowest budgets of the domain and 1275..=1280, x client size exponent none/0/2/4/6/7; non-trivial = all (every case sits on a threshold)",
        true,
        cases,
        |ctx, c: &Case, acc| {
            check(ctx, c, acc, true)?;
            Ok(())
        },
    );
    // every budget in the 37 bytes above overhead + 2^k, for several overhead
    // shapes (token length, Block option with and without extended delta)
    let mut fine = Vec::new();
    for upload in [false, true] {
        for token_len in [0u8, 8] {
            for resp_options in [vec![], vec![(4u16, vec![7u8; 4])], vec![(12u16, vec![42u8]), (14, vec![60])]] {
                for client_szx in [None, Some(1u8), Some(6)] {
                    let mut base = Case {
                        upload,
                        budget: 0,
                        token_len,
                        con: token_len == 0,
                        method: if upload { 2 } else { 1 },
                        path: vec![b"p".to_vec()],
                        req_extra: vec![],
                        resp_options: resp_options.clone(),
                        client_szx,
                        body_len: 600,
                        reply_len: 0,
                        high_blocks: false,
                reduce: 0,
                upload_block2: None,
                reply_code: None,
                late_extra: 0,
                pre_abandoned: false,
                    };
                    let overhead = if upload { base.request_overhead() } else { base.reply().overhead(token_len as usize) };
                    let lo = base.min_budget();
                    for k in 4..=8 {
                        for j in 0..=36usize {
                            let b = overhead + (1usize << k) + j;
                            if b >= lo && b <= 1280 {
                                base.budget = b;
                                base.body_len = (40usize << k).min(6000);
                                fine.push(base.clone());
                            }
                        }
                    }
                }
            }
        }
    }
    run_list(
        ctx,
        rep,
        "every-budget-above-each-power-of-two",
        "downloads and uploads: every budget overhead + 2^k + j (k = 4..=8, j = 0..=36) x token length 0/8 x response option sets that make the Block option need an extended delta or not x client size exponent none/1/6; bodies long enough for two-byte block numbers",
        true,
        fine,
        |ctx, c: &Case, acc| check(ctx, c, acc, true),
    );
    // long downloads: three-byte block numbers
    let mut long = Vec::new();
    for token_len in [0u8, 8] {
        for resp_options in [vec![], vec![(4u16, vec![7u8; 4])]] {
            let mut base = Case {
                upload: false,
                budget: 0,
                token_len,
                con: true,
                method: 1,
                path: vec![b"p".to_vec()],
                req_extra: vec![],
                resp_options: resp_options.clone(),
                client_szx: None,
                body_len: 0,
                reply_len: 0,
                high_blocks: true,
                reduce: 0,
                upload_block2: None,
                reply_code: None,
                late_extra: 0,
                pre_abandoned: false,
            };
            let overhead = base.reply().overhead(token_len as usize);
            let lo = base.min_budget();
            for k in 4..=6 {
                for j in 0..=36usize {
                    let b = overhead + (1usize << k) + j;
                    if b >= lo {
                        base.budget = b;
                        base.body_len = (4100usize << k) + 3;
                        long.push(base.clone());
                    }
                }
            }
            // a client asking for less than the budget allows
            for (szx, budget) in [(0u8, 300usize), (0, 1280), (1, 200), (2, 1280)] {
                let mut c = base.clone();
                c.client_szx = Some(szx);
                c.budget = budget.max(lo);
                c.body_len = (4100usize << (szx + 4)) + 3;
                long.push(c);
            }
        }
    }
    run_list(
        ctx,
        rep,
        "long-downloads-high-block-numbers",
        "downloads of more than 4100 blocks (block sizes 16..64): every budget overhead + 2^k + j (j = 0..=36); after block 0 the client jumps to blocks 1, 15, 16, 255, 256, 4095, 4096 and the last one, where the Block2 option value changes length",
        true,
        long,
        |ctx, c: &Case, acc| check(ctx, c, acc, true),
    );
    let n = ctx.cases(120_000, 10_000_000);
    run_prop(
        ctx,
        rep,
        "random-configurations",
        "random (budget, overhead, client size) configurations: overhead varied through token length, path and extra request / response options; budgets on the edges of the domain, in bands around overhead+12+2^k and overhead+32+2^k, and uniform; client size exponent none or 0..=7; downloads and uploads; non-trivial = budget within 3 of a threshold or client size larger than what fits; distinct by case hash",
        n,
        case,
        |ctx, c: &Case, acc| check(ctx, c, acc, false),
    );
}
