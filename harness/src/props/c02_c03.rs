//! C02 — every accepted datagram re-encodes to identical bytes.
//! C03 — the parser is total: well-formed accepted, malformed rejected.
//!
//! One set of byte-string generators, two oracles.

use coap_lite::Packet;
use proptest::prelude::*;
use serde_json::json;

use crate::engine::*;
use crate::gen::wire::*;
use crate::pkt::*;
use crate::refmodel::wire::{parse, Verdict};
use crate::{ensure, fail};

/// A long well-formed datagram described compactly.
#[derive(Clone, Debug, serde::Serialize, serde::Deserialize)]
pub struct BigSpec {
    /// 0: bare header; 1: 8-byte token; 2: token + Uri-Path + option 258;
    /// 3: 4-byte token + one option with ext16 delta and a 300-byte value
    pub shape: u8,
    /// further options (alternating delta 0 / 1) of `opt_len` bytes each
    pub options: u32,
    pub opt_len: u32,
    pub payload_len: u32,
    /// bytes removed from the end
    pub cut: u32,
    /// how many of the further options share one number (0 = all of them)
    #[serde(default = "two")]
    pub per_number: u32,
}

fn two() -> u32 {
    2
}

impl BigSpec {
    pub fn bytes(&self) -> Vec<u8> {
        let mut m = crate::refmodel::wire::Msg {
            version: 1,
            mtype: (self.payload_len & 3) as u8,
            token: vec![],
            code: 0x45,
            mid: 0x1234,
            options: vec![],
            payload: pattern(self.payload_len as usize, 7),
        };
        match self.shape {
            0 => {}
            1 => m.token = vec![1, 2, 3, 4, 5, 6, 7, 8],
            2 => {
                m.token = vec![0xAA, 0xBB];
                m.options.push((11, b"a".to_vec()));
                m.options.push((258, vec![2]));
            }
            _ => {
                m.token = vec![9, 8, 7, 6];
                m.options.push((2000, pattern(300, 3)));
            }
        }
        let base = m.options.last().map(|o| o.0).unwrap_or(0);
        for i in 0..self.options {
            let num = (base as u32 + if self.per_number == 0 { 0 } else { i / self.per_number }).min(65535) as u16;
            m.options.push((num, pattern(self.opt_len as usize, i as u8)));
        }
        let mut b = m.encode().expect("reference encoder");
        let keep = b.len().saturating_sub(self.cut as usize);
        b.truncate(keep);
        b
    }
}

#[derive(Clone, Copy, PartialEq, Eq)]
pub enum Which {
    C02,
    C03,
}

fn classify(b: &[u8], acc: &mut Acc) -> (Verdict, bool) {
    let (v, st) = parse(b);
    match &v {
        Verdict::MustAccept(_) => acc.class("ref:must-accept"),
        Verdict::Either(_, why) => match *why {
            "version" => acc.class("ref:either-version"),
            "empty-with-content" => acc.class("ref:either-empty-with-content"),
            _ => acc.class("ref:either-marker-no-payload"),
        },
        Verdict::MustReject(why) => match *why {
            "short" => acc.class("ref:reject-short"),
            "tkl" => acc.class("ref:reject-tkl"),
            "token-trunc" => acc.class("ref:reject-token-trunc"),
            "delta15" => acc.class("ref:reject-delta15"),
            "len15" => acc.class("ref:reject-len15"),
            "ext-trunc" => acc.class("ref:reject-ext-trunc"),
            "value-trunc" => acc.class("ref:reject-value-trunc"),
            _ => acc.class("ref:reject-number-overflow"),
        },
    }
    if st.ext8_delta {
        acc.class("ext8-delta");
    }
    if st.ext16_delta {
        acc.class("ext16-delta");
    }
    if st.ext8_len {
        acc.class("ext8-len");
    }
    if st.ext16_len {
        acc.class("ext16-len");
    }
    match st.options {
        0 => {}
        1 => acc.class("options=1"),
        2 => acc.class("options=2"),
        _ => acc.class("options>=3"),
    }
    (v, st.entered_options)
}

/// C03 oracle on one datagram.
pub fn check_c03(b: &[u8], enumerated: bool, acc: &mut Acc) -> Result<(), Fail> {
    let (verdict, entered) = classify(b, acc);
    let res = match catch(|| Packet::from_bytes(b)) {
        Ok(r) => r,
        Err(msg) => fail!(
            "c03-parser-panic",
            "from_bytes panicked on {}: {msg}",
            hex(b)
        ),
    };
    match (&res, &verdict) {
        (Ok(_), Verdict::MustReject(why)) => fail!(
            "c03-accepted-malformed",
            "from_bytes accepted a malformed datagram ({why}): {}",
            hex(b)
        ),
        (Err(e), Verdict::MustAccept(_)) => fail!(
            "c03-rejected-wellformed",
            "from_bytes rejected a well-formed version-1 datagram with {e:?}: {}",
            hex(b)
        ),
        (Ok(p), Verdict::MustAccept(m)) | (Ok(p), Verdict::Either(m, _)) => {
            acc.class("impl:accepted");
            let got = to_msg(p);
            let mut ok = &got == m;
            if !ok && m.code == 0 {
                // a stricter implementation may drop the content of 0.00
                let mut alt = m.clone();
                alt.payload.clear();
                ok = got == alt;
            }
            ensure!(
                ok,
                "c03-wrong-fields",
                "from_bytes returned fields that differ from the RFC grammar for {}: got {:?}, expected {:?}",
                hex(b),
                brief(&got),
                brief(m)
            );
        }
        (Err(_), _) => acc.class("impl:rejected"),
    }
    if entered {
        if enumerated {
            acc.nontrivial_enum();
        } else {
            acc.nontrivial(fp(&b));
        }
    }
    Ok(())
}

fn brief(m: &crate::refmodel::wire::Msg) -> String {
    format!(
        "ver={} type={} token={} code={:#04x} mid={:#06x} options={:?} payload={}",
        m.version,
        m.mtype,
        hex(&m.token),
        m.code,
        m.mid,
        m.options
            .iter()
            .map(|(n, v)| format!("{n}:{}", hex(&v[..v.len().min(8)])))
            .collect::<Vec<_>>(),
        hex(&m.payload[..m.payload.len().min(8)])
    )
}

/// C02 oracle on one datagram.
pub fn check_c02(b: &[u8], enumerated: bool, acc: &mut Acc) -> Result<(), Fail> {
    let res = match catch(|| Packet::from_bytes(b)) {
        Ok(r) => r,
        Err(_) => {
            // Panics of the parser are C03's business.
            acc.class("parser-panic-left-to-C03");
            return Ok(());
        }
    };
    let p = match res {
        Err(_) => {
            acc.class("impl:rejected");
            return Ok(());
        }
        Ok(p) => p,
    };
    acc.class("impl:accepted");
    let (_, st) = parse(b);
    let e = match catch(|| p.to_bytes_unlimited()) {
        Err(msg) => fail!(
            "c02-reencode-panic",
            "to_bytes_unlimited panicked on the packet parsed from {}: {msg}",
            hex(b)
        ),
        Ok(Err(err)) => fail!(
            "c02-reencode-refused",
            "an accepted datagram could not be re-encoded ({err:?}): {}",
            hex(b)
        ),
        Ok(Ok(e)) => e,
    };
    let identical = e == b;
    let trailing_marker = b.len() == e.len() + 1
        && b[..e.len()] == e[..]
        && b[e.len()] == 0xFF;
    let empty_payload_dropped = b[1] == 0
        && b.len() > e.len()
        && b[..e.len()] == e[..]
        && b[e.len()] == 0xFF;
    if identical {
        acc.class("reencode:identical");
    } else if trailing_marker {
        acc.class("reencode:trailing-marker-dropped");
    } else if empty_payload_dropped {
        acc.class("reencode:empty-message-payload-dropped");
    } else {
        fail!(
            "c02-reencode-differs",
            "re-encoding an accepted datagram changed it: {}; in {} out {}",
            first_diff(b, &e),
            hex(b),
            hex(&e)
        );
    }
    if !identical {
        // cross-check the cut point with the reference parser
        ensure!(
            e.len() == st.options_end,
            "c02-cut-point",
            "re-encoding cut the datagram at {} but the options end at {}: {}",
            e.len(),
            st.options_end,
            hex(b)
        );
    }
    if st.options > 0 || st.has_marker {
        if enumerated {
            acc.nontrivial_enum();
        } else {
            acc.nontrivial(fp(&b));
        }
    }
    match st.options {
        0 => {}
        1 => acc.class("options=1"),
        2 => acc.class("options=2"),
        _ => acc.class("options>=3"),
    }
    if st.ext8_delta || st.ext16_delta {
        acc.class("ext-delta");
    }
    if st.ext8_len || st.ext16_len {
        acc.class("ext-len");
    }
    Ok(())
}

fn check_bytes(
    which: Which,
    enumerated: bool,
    b: &[u8],
    acc: &mut Acc,
) -> Result<(), Fail> {
    match which {
        Which::C02 => check_c02(b, enumerated, acc),
        Which::C03 => check_c03(b, enumerated, acc),
    }
}

pub const TEMPLATES: [&[u8]; 8] = [
    &[0x40, 0x01, 0x12, 0x34],
    &[0x41, 0x02, 0xAB, 0xCD, 0x99],
    &[0x48, 0x45, 0x00, 0x01, 1, 2, 3, 4, 5, 6, 7, 8],
    &[0x40, 0x00, 0x00, 0x00],
    &[0x80, 0x01, 0x00, 0x07],
    &[0x50, 0x45, 0xFF, 0xFF],
    &[0x62, 0x00, 0x10, 0x00, 0xEE, 0xFF],
    &[0x70, 0x84, 0x00, 0x01],
];

/// All byte strings of length 0..=k as (length, index) pairs flattened.
fn tails(k: usize) -> u64 {
    (0..=k).map(|l| 256u64.pow(l as u32)).sum()
}

fn nth_tail(mut idx: u64, k: usize) -> Vec<u8> {
    for l in 0..=k {
        let n = 256u64.pow(l as u32);
        if idx < n {
            let mut v = vec![0u8; l];
            for i in (0..l).rev() {
                v[i] = (idx & 0xff) as u8;
                idx >>= 8;
            }
            return v;
        }
        idx -= n;
    }
    unreachable!()
}

fn value_fill(n: usize) -> impl Iterator<Item = u8> {
    (0..n).map(|i| (i as u8).wrapping_mul(7).wrapping_add(1) & 0x7f)
}

/// Datagram: header, then one option with header byte `h`, optional extended
/// fields, `avail` value bytes (may be fewer/more than the declared length)
/// and `suffix`.
fn opt_datagram(
    head: &[u8],
    h: u8,
    extd: Option<u16>,
    extl: Option<u16>,
    avail: usize,
    suffix: &[u8],
) -> Vec<u8> {
    let mut v = head.to_vec();
    v.push(h);
    match (h >> 4, extd) {
        (13, Some(x)) => v.push(x as u8),
        (14, Some(x)) => v.extend_from_slice(&x.to_be_bytes()),
        _ => {}
    }
    match (h & 15, extl) {
        (13, Some(x)) => v.push(x as u8),
        (14, Some(x)) => v.extend_from_slice(&x.to_be_bytes()),
        _ => {}
    }
    v.extend(value_fill(avail));
    v.extend_from_slice(suffix);
    v
}

fn declared_len(h: u8, extl: u16) -> usize {
    match h & 15 {
        13 => extl as usize % 256 + 13,
        14 => extl as usize + 269,
        n => n as usize,
    }
}

pub fn run(ctx: &Ctx, rep: &mut Report, which: Which) {
    rep.assume("reference parser written from RFC 7252 section 3 (three-valued) is part of the trusted base");
    if which == Which::C02 {
        rep.assume("panics of from_bytes are counted and left to C03");
    }
    let k = ctx.pick(2usize, 3usize);
    let per = tails(k);
    // (a) every tail of <= k bytes after each header template
    let chunks_per_t = ctx.pick(8usize, 256usize);
    run_enum_chunks(
        ctx,
        rep,
        "header-templates-x-all-tails",
        &format!("each of {} header templates followed by every byte string of length 0..={k}; non-trivial = reference parse enters the option loop (C03) / accepted with an option or marker (C02)", TEMPLATES.len()),
        true,
        TEMPLATES.len() * chunks_per_t,
        |c| {
            let t = c / chunks_per_t;
            let part = (c % chunks_per_t) as u64;
            let lo = per * part / chunks_per_t as u64;
            let hi = per * (part + 1) / chunks_per_t as u64;
            (lo..hi).map(move |i| {
                let mut v = TEMPLATES[t].to_vec();
                v.extend(nth_tail(i, k));
                v
            })
        },
        |_ctx, b: &Vec<u8>, acc| {
            acc.sample("tail", || json!(hex(b)));
            check_bytes(which, true, b, acc)
        },
    );

    // (b) option header byte x every extended value.  One dimension is swept
    // completely while the other sits on its boundary values; value bytes are
    // supplied exactly, one short, and with a following option / marker.
    let heads: [&[u8]; 2] = [TEMPLATES[0], TEMPLATES[1]];
    let sweep16d: Vec<u8> = if ctx.quick() {
        vec![0xE0, 0xE1, 0xEC, 0xED]
    } else {
        (0xE0..=0xEF).collect()
    };
    let sweep16l: Vec<u8> = if ctx.quick() {
        vec![0x0E]
    } else {
        vec![0x0E, 0x1E, 0xCE, 0xDE, 0xEE]
    };
    const SPLIT: usize = 8;
    run_enum_chunks(
        ctx,
        rep,
        "option-header-x-extended-values",
        "every option header byte 0..=255 x every 8-bit extended delta and length value, selected header bytes x every 16-bit extended delta / length value (the other field on its boundary values), with the value bytes exact, one short, and followed by another option or the marker; distinct by construction",
        true,
        256 * SPLIT,
        |c| {
            let h = (c / SPLIT) as u8;
            let part = c % SPLIT;
            let dn = h >> 4;
            let ln = h & 15;
            let d_full: Vec<u16> = match dn {
                13 => (0..=255).collect(),
                14 if sweep16d.contains(&h) => (0..=65535).collect(),
                14 => vec![0, 1, 255, 256, 65000, 65265, 65266, 65267, 65535],
                _ => vec![0],
            };
            let d_bnd: Vec<u16> = match dn {
                13 => vec![0, 1, 242, 243, 255],
                14 => vec![0, 1, 65266, 65267, 65535],
                _ => vec![0],
            };
            let l_full: Vec<u16> = match ln {
                13 => (0..=255).collect(),
                14 if sweep16l.contains(&h) => (0..=65535).collect(),
                14 => vec![0, 1, 255, 256, 65265, 65266, 65267, 65535],
                _ => vec![0],
            };
            let l_bnd: Vec<u16> = match ln {
                13 => vec![0, 1, 255],
                14 => vec![0, 1],
                _ => vec![0],
            };
            let mut pairs: Vec<(u16, u16)> = Vec::new();
            for &d in &d_full {
                for &l in &l_bnd {
                    pairs.push((d, l));
                }
            }
            for &d in &d_bnd {
                for &l in &l_full {
                    if !(d_full.contains(&d) && l_bnd.contains(&l)) {
                        pairs.push((d, l));
                    }
                }
            }
            let mut out: Vec<(usize, u16, u16, usize, u8)> = Vec::new();
            for (i, (d, l)) in pairs.into_iter().enumerate() {
                if i % SPLIT != part {
                    continue;
                }
                let need = declared_len(h, l);
                let small = need < 600 || l % 2048 == 0 || l >= 65260;
                for hi in 0..heads.len() {
                    if hi == 1 && !small {
                        continue;
                    }
                    out.push((hi, d, l, need, 0));
                    if small {
                        if need > 0 {
                            out.push((hi, d, l, need - 1, 0));
                        }
                        out.push((hi, d, l, need, 1));
                        out.push((hi, d, l, need, 2));
                    }
                }
            }
            out.into_iter().map(move |(hi, d, l, avail, sk)| {
                let suffix: &[u8] = match sk {
                    0 => &[],
                    1 => &[0x11, 0x55],
                    _ => &[0xFF, 0x01],
                };
                opt_datagram(heads[hi], h, Some(d), Some(l), avail, suffix)
            })
        },
        |_ctx, b: &Vec<u8>, acc| {
            acc.sample("opt", || json!(hex(&b[..b.len().min(24)])));
            check_bytes(which, true, b, acc)
        },
    );

    // (c) cumulative option number around 65535: two and three options
    let mut cum = Vec::new();
    for d1 in (64990u32..=65535).chain([269, 1000, 30000]) {
        for d2 in [0u32, 1, 12, 13, 14, 255, 256, 268, 269, 270, 545, 546, 547, 35535, 35536, 65266, 65535] {
            let mut v = TEMPLATES[0].to_vec();
            for d in [d1, d2] {
                if d <= 12 {
                    v.push((d as u8) << 4 | 1);
                } else if d < 269 {
                    v.push(0xD1);
                    v.push((d - 13) as u8);
                } else {
                    v.push(0xE1);
                    v.extend_from_slice(&((d - 269) as u16).to_be_bytes());
                }
                v.push(0x42);
            }
            cum.push(v.clone());
            v.extend_from_slice(&[0x10, 0xFF, 0x01]);
            cum.push(v);
        }
    }
    // many small deltas summing past 65535
    {
        let mut v = TEMPLATES[0].to_vec();
        for _ in 0..17 {
            v.extend_from_slice(&[0xE0, 0x0E, 0x00]); // delta 3584+269 = 3853
        }
        for extra in 0..6 {
            let mut w = v.clone();
            for _ in 0..extra {
                w.extend_from_slice(&[0xD0, 0x00]);
            }
            cum.push(w);
        }
        cum.push(v);
    }
    // directed malformed shapes
    for n in 0..4 {
        cum.push(vec![0x40; n]);
    }
    for tkl in 0..16u8 {
        for have in 0..10usize {
            let mut v = vec![0x40 | tkl, 0x01, 0, 1];
            v.extend(std::iter::repeat(0x21).take(have));
            cum.push(v);
        }
    }
    run_list(
        ctx,
        rep,
        "cumulative-number-and-directed-shapes",
        "two/three options whose cumulative number lands on both sides of 65535 (one large delta, a sum of deltas); short datagrams; every TKL 0..15 x 0..9 available bytes",
        true,
        cum,
        |_ctx, b: &Vec<u8>, acc| check_bytes(which, false, b, acc),
    );

    // (c2) large datagrams: payloads and option sections on both sides of
    // 1280, 64000 (MAX_SIZE with and without `udp`) and 65536
    let mut big: Vec<BigSpec> = Vec::new();
    let mut plens: Vec<u32> = (1268..=1292).collect();
    plens.extend([0, 1, 2000, 4096, 20000, 63980, 63990, 63995, 63996, 63997, 63998, 63999, 64000, 64001, 64002, 64005, 65534, 65535, 65536, 65537, 70000, 131072, 200000]);
    for &payload_len in &plens {
        for shape in 0..4u8 {
            big.push(BigSpec { shape, options: 0, opt_len: 0, payload_len, cut: 0, per_number: 2 });
        }
    }
    for (options, opt_len) in [(5u32, 255u32), (5, 256), (100, 12), (100, 13), (110, 300), (250, 268), (250, 269), (1300, 0), (1300, 1), (64010, 0), (3, 65535), (2, 40000), (1, 65804), (1, 65803)] {
        for payload_len in [0u32, 1, 1280, 64000] {
            for shape in [0u8, 2] {
                big.push(BigSpec { shape, options, opt_len, payload_len, cut: 0, per_number: 2 });
            }
        }
        // truncated inside the last option value / the payload
        big.push(BigSpec { shape: 1, options, opt_len, payload_len: 0, cut: 1, per_number: 2 });
        big.push(BigSpec { shape: 1, options, opt_len, payload_len: 5, cut: 6, per_number: 2 });
    }
    // one option number repeated many times (the per-number value list)
    for options in [254u32, 255, 256, 257, 300, 1000, 5000, 65536, 70000] {
        for (shape, opt_len, payload_len) in [(0u8, 0u32, 0u32), (2, 1, 3), (1, 2, 0)] {
            if (options as u64) * (opt_len as u64 + 1) <= 200_000 {
                big.push(BigSpec { shape, options, opt_len, payload_len, cut: 0, per_number: 0 });
            }
        }
        big.push(BigSpec { shape: 0, options, opt_len: 0, payload_len: 0, cut: 0, per_number: 256 });
    }
    run_list(
        ctx,
        rep,
        "large-datagrams",
        "well-formed datagrams with payloads of 0..200000 bytes (every length 1268..=1292, neighbours of 64000 and 65536) after four header/option shapes, and option sections of up to 190 KB (many options, values up to 65804 bytes) with and without payload, whole and truncated; one option number repeated 254..70000 times; non-trivial = longer than 1280 bytes or more than 255 values of one number",
        true,
        big,
        |_ctx, c: &BigSpec, acc| {
            let b = c.bytes();
            if b.len() > 1280 || (c.per_number == 0 && c.options > 255) {
                acc.nontrivial_enum();
            }
            if c.per_number == 0 && c.options > 255 {
                acc.class("one-number-more-than-255-values");
            }
            if b.len() > 64000 {
                acc.class("datagram>64000");
            }
            acc.sample("large", || json!(c));
            check_bytes(which, false, &b, acc)
        },
    );

    // (d) every prefix and every single-byte substitution of well-formed messages
    let n = ctx.cases(1_000, 12_000);
    run_prop(
        ctx,
        rep,
        "prefixes-and-byte-substitutions",
        "for each generated well-formed message (<= ~300 bytes): every prefix and, at every position (all positions if <= 64 bytes, else the first 48 and last 8), every one of the 255 substitutions; each datagram counted as one evaluation",
        n,
        small_valid_msg,
        move |_ctx, spec: &MsgSpec, acc| {
            let m = spec.msg();
            let img = match m.encode() {
                Ok(i) => i,
                Err(_) => return Ok(()),
            };
            acc.sample("base-message", || json!(hex(&img)));
            let mut n = 0u64;
            for cut in 0..=img.len() {
                check_bytes(which, false, &img[..cut], acc)?;
                n += 1;
            }
            let positions: Vec<usize> = if img.len() <= 64 {
                (0..img.len()).collect()
            } else {
                (0..48).chain(img.len() - 8..img.len()).collect()
            };
            let mut w = img.clone();
            for pos in positions {
                let orig = w[pos];
                for x in 0..=255u8 {
                    if x == orig {
                        continue;
                    }
                    w[pos] = x;
                    check_bytes(which, false, &w, acc)?;
                    n += 1;
                }
                w[pos] = orig;
            }
            acc.evaluations += n.saturating_sub(1);
            Ok(())
        },
    );

    // (e) random strings: uniform, and option-shaped chunks
    let n = ctx.cases(600_000, 10_000_000);
    run_prop(
        ctx,
        rep,
        "random-datagrams",
        "random byte strings: a plausible header followed by option-shaped chunks (header byte, extension bytes, value) mixed with raw noise; distinct by content hash",
        n,
        || {
            let chunk = prop_oneof![
                4 => (any::<u8>(), proptest::collection::vec(any::<u8>(), 0..6))
                    .prop_map(|(h, mut v)| { v.insert(0, h); v }),
                2 => (0u8..13, 0u8..13).prop_flat_map(|(d, l)| {
                    proptest::collection::vec(any::<u8>(), l as usize)
                        .prop_map(move |mut v| { v.insert(0, d << 4 | l); v })
                }),
                1 => Just(vec![0xFFu8]),
                1 => proptest::collection::vec(any::<u8>(), 0..20),
            ];
            (
                prop_oneof![
                    6 => (0u8..4, 0u8..=8).prop_map(|(t, tkl)| 0x40 | t << 4 | tkl),
                    1 => any::<u8>(),
                ],
                code_byte(),
                any::<u16>(),
                proptest::collection::vec(any::<u8>(), 0..=8),
                proptest::collection::vec(chunk, 0..6),
            )
                .prop_map(|(b0, code, mid, tok, chunks)| {
                    let mut v = vec![b0, code, (mid >> 8) as u8, mid as u8];
                    let tkl = (b0 & 15) as usize;
                    v.extend(tok.iter().cycle().take(if tok.is_empty() { 0 } else { tkl.min(8) }));
                    for c in chunks {
                        v.extend(c);
                    }
                    v
                })
        },
        |_ctx, b: &Vec<u8>, acc| {
            acc.sample("random", || json!(hex(b)));
            check_bytes(which, false, b, acc)
        },
    );
}
