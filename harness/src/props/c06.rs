//! C06 — typed option values use the minimal big-endian uint form and round-trip.

use std::collections::LinkedList;
use std::convert::TryFrom;

use coap_lite::option_value::{
    OptionValueString, OptionValueU16, OptionValueU32, OptionValueU64,
    OptionValueU8,
};
use coap_lite::{CoapOption, Packet};
use proptest::prelude::*;
use serde::{Deserialize, Serialize};
use serde_json::json;

use crate::engine::*;
use crate::pkt::hex;
use crate::props::c01::min_uint;
use crate::{ensure, fail};

#[derive(Clone, Debug, Serialize, Deserialize, Hash)]
pub struct EncCase {
    pub width: u8,
    pub value: u64,
}

#[derive(Clone, Debug, Serialize, Deserialize, Hash)]
pub struct DecCase {
    pub width: u8,
    pub bytes: Vec<u8>,
}

fn encode_impl(width: u8, v: u64) -> Result<Vec<u8>, String> {
    catch(|| match width {
        1 => Vec::from(OptionValueU8(v as u8)),
        2 => Vec::from(OptionValueU16(v as u16)),
        4 => Vec::from(OptionValueU32(v as u32)),
        _ => Vec::from(OptionValueU64(v)),
    })
}

fn decode_impl(width: u8, b: &[u8]) -> Result<Result<u64, String>, String> {
    let b = b.to_vec();
    catch(|| match width {
        1 => OptionValueU8::try_from(b).map(|x| x.0 as u64).map_err(|e| e.message),
        2 => OptionValueU16::try_from(b).map(|x| x.0 as u64).map_err(|e| e.message),
        4 => OptionValueU32::try_from(b).map(|x| x.0 as u64).map_err(|e| e.message),
        _ => OptionValueU64::try_from(b).map(|x| x.0).map_err(|e| e.message),
    })
}

fn mask(width: u8, v: u64) -> u64 {
    if width >= 8 {
        v
    } else {
        v & ((1u64 << (8 * width as u32)) - 1)
    }
}

pub fn check_enc(_ctx: &Ctx, c: &EncCase, acc: &mut Acc, enumerated: bool) -> Result<(), Fail> {
    let v = mask(c.width, c.value);
    let want = min_uint(v);
    let got = match encode_impl(c.width, v) {
        Ok(g) => g,
        Err(msg) => fail!("c06-encode-panic", "encoding {v} at width {} panicked: {msg}", c.width),
    };
    ensure!(
        got == want,
        "c06-not-minimal-big-endian",
        "u{} value {v} encodes as {}, minimal big-endian form is {}",
        c.width as u32 * 8,
        hex(&got),
        hex(&want)
    );
    match decode_impl(c.width, &got) {
        Ok(Ok(back)) => ensure!(
            back == v,
            "c06-uint-roundtrip",
            "u{} value {v} -> {} -> {back}",
            c.width as u32 * 8,
            hex(&got)
        ),
        Ok(Err(e)) => fail!("c06-uint-roundtrip", "own encoding {} of {v} rejected: {e}", hex(&got)),
        Err(msg) => fail!("c06-decode-panic", "decoding {} panicked: {msg}", hex(&got)),
    }
    if v >= 256 {
        if enumerated {
            acc.nontrivial_enum();
        } else {
            acc.nontrivial(fp(c));
        }
        acc.class("value>=256");
    }
    acc.sample("encode", || json!({"width": c.width, "value": v, "encoded": hex(&got)}));
    Ok(())
}

pub fn check_dec(_ctx: &Ctx, c: &DecCase, acc: &mut Acc, enumerated: bool) -> Result<(), Fail> {
    let got = match decode_impl(c.width, &c.bytes) {
        Ok(g) => g,
        Err(msg) => fail!("c06-decode-panic", "decoding {} at width {} panicked: {msg}", hex(&c.bytes), c.width),
    };
    let too_long = c.bytes.len() > c.width as usize;
    match got {
        Ok(v) => {
            ensure!(
                !too_long,
                "c06-overlong-accepted",
                "{}-byte string {} decoded as u{} = {v}",
                c.bytes.len(),
                hex(&c.bytes),
                c.width as u32 * 8
            );
            let want = c.bytes.iter().fold(0u64, |a, &b| (a << 8) | b as u64);
            ensure!(
                v == want,
                "c06-decode-value",
                "{} decodes as {v} at width {}, big-endian value is {want}",
                hex(&c.bytes),
                c.width
            );
        }
        Err(_) => ensure!(
            too_long,
            "c06-valid-rejected",
            "{} ({} bytes) rejected at width {}",
            hex(&c.bytes),
            c.bytes.len(),
            c.width
        ),
    }
    let nt = too_long || c.bytes.first() == Some(&0) || c.bytes.len() >= 2;
    if nt {
        if enumerated {
            acc.nontrivial_enum();
        } else {
            acc.nontrivial(fp(c));
        }
    }
    if too_long {
        acc.class("over-long");
    }
    if c.bytes.first() == Some(&0) {
        acc.class("leading-zero");
    }
    acc.sample("decode", || json!({"width": c.width, "bytes": hex(&c.bytes)}));
    Ok(())
}

#[derive(Clone, Debug, Serialize, Deserialize, Hash)]
pub enum Typed {
    U8(u8),
    U16(u16),
    U32(u32),
    U64(u64),
    Str(String),
    Raw(Vec<u8>),
}

impl Typed {
    fn reference(&self) -> Vec<u8> {
        match self {
            Typed::U8(v) => min_uint(*v as u64),
            Typed::U16(v) => min_uint(*v as u64),
            Typed::U32(v) => min_uint(*v as u64),
            Typed::U64(v) => min_uint(*v),
            Typed::Str(s) => s.as_bytes().to_vec(),
            Typed::Raw(b) => b.clone(),
        }
    }
}

#[derive(Clone, Debug, Serialize, Deserialize, Hash)]
pub enum AccOp {
    Add(u16, Typed),
    SetU32(u16, Vec<u32>),
    SetU16(u16, Vec<u16>),
    SetStr(u16, Vec<String>),
    SetObserve(u32),
    Clear(u16),
    /// Packet::set_content_format with the i-th named content format
    SetContentFormat(u16),
    /// header code byte (the typed accessors do not depend on it)
    Code(u8),
}

fn ref_decode(width: usize, b: &[u8]) -> Option<u64> {
    if b.len() > width {
        None
    } else {
        Some(b.iter().fold(0u64, |a, &x| (a << 8) | x as u64))
    }
}

pub fn check_accessors(_ctx: &Ctx, ops: &Vec<AccOp>, acc: &mut Acc) -> Result<(), Fail> {
    let mut p = Packet::new();
    let mut model: std::collections::BTreeMap<u16, Vec<Vec<u8>>> = Default::default();
    for op in ops {
        let r = catch(|| match op {
            AccOp::Add(n, t) => {
                let o = CoapOption::from(*n);
                match t {
                    Typed::U8(v) => p.add_option_as(o, OptionValueU8(*v)),
                    Typed::U16(v) => p.add_option_as(o, OptionValueU16(*v)),
                    Typed::U32(v) => p.add_option_as(o, OptionValueU32(*v)),
                    Typed::U64(v) => p.add_option_as(o, OptionValueU64(*v)),
                    Typed::Str(s) => p.add_option_as(o, OptionValueString(s.clone())),
                    Typed::Raw(b) => p.add_option(o, b.clone()),
                }
            }
            AccOp::SetU32(n, l) => p.set_options_as(
                CoapOption::from(*n),
                l.iter().map(|v| OptionValueU32(*v)).collect::<LinkedList<_>>(),
            ),
            AccOp::SetU16(n, l) => p.set_options_as(
                CoapOption::from(*n),
                l.iter().map(|v| OptionValueU16(*v)).collect::<LinkedList<_>>(),
            ),
            AccOp::SetStr(n, l) => p.set_options_as(
                CoapOption::from(*n),
                l.iter().map(|v| OptionValueString(v.clone())).collect::<LinkedList<_>>(),
            ),
            AccOp::SetObserve(v) => p.set_observe_value(*v),
            AccOp::Clear(n) => p.clear_option(CoapOption::from(*n)),
            AccOp::SetContentFormat(i) => {
                let t = crate::refmodel::registry::content_formats();
                p.set_content_format(t[*i as usize % t.len()].0)
            }
            AccOp::Code(b) => p.header.code = coap_lite::MessageClass::from(*b),
        });
        if let Err(msg) = r {
            fail!("c06-accessor-panic", "{op:?} panicked: {msg}");
        }
        match op {
            AccOp::Add(n, t) => model.entry(*n).or_default().push(t.reference()),
            AccOp::SetU32(n, l) => {
                model.insert(*n, l.iter().map(|v| min_uint(*v as u64)).collect());
            }
            AccOp::SetU16(n, l) => {
                model.insert(*n, l.iter().map(|v| min_uint(*v as u64)).collect());
            }
            AccOp::SetStr(n, l) => {
                model.insert(*n, l.iter().map(|v| v.as_bytes().to_vec()).collect());
            }
            AccOp::SetObserve(v) => {
                model.insert(6, vec![min_uint(*v as u64)]);
            }
            AccOp::Clear(n) => {
                if let Some(l) = model.get_mut(n) {
                    l.clear()
                }
            }
            AccOp::SetContentFormat(i) => {
                let t = crate::refmodel::registry::content_formats();
                model.insert(12, vec![min_uint(t[*i as usize % t.len()].1 as u64)]);
            }
            AccOp::Code(_) => {}
        }
    }
    let mut nontrivial = false;
    for (n, want) in &model {
        let o = CoapOption::from(*n);
        let raw: Vec<Vec<u8>> = p
            .get_option(o)
            .map(|l| l.iter().cloned().collect())
            .unwrap_or_default();
        ensure!(
            &raw == want,
            "c06-stored-encoding",
            "option {n}: stored values {:?}, reference encodings {:?}",
            raw.iter().map(|b| hex(b)).collect::<Vec<_>>(),
            want.iter().map(|b| hex(b)).collect::<Vec<_>>()
        );
        if want.len() >= 2 {
            nontrivial = true;
        }
        // typed reads, element by element
        macro_rules! typed_read {
            ($t:ident, $w:expr) => {{
                let got = p.get_options_as::<$t>(o).unwrap_or_default();
                ensure!(
                    got.len() == want.len(),
                    "c06-typed-read-length",
                    "option {n}: get_options_as returned {} elements for {} stored",
                    got.len(),
                    want.len()
                );
                for (i, (g, w)) in got.iter().zip(want.iter()).enumerate() {
                    let r = ref_decode($w, w);
                    let ok = match (g, r) {
                        (Ok(x), Some(v)) => x.0 as u64 == v,
                        (Err(_), None) => true,
                        _ => false,
                    };
                    ensure!(
                        ok,
                        "c06-typed-read",
                        "option {n} element {i} ({}) read at width {} as {g:?}, reference {r:?}",
                        hex(w),
                        $w
                    );
                }
                let first = p.get_first_option_as::<$t>(o);
                let ok = match (&first, want.first()) {
                    (None, None) => true,
                    (Some(g), Some(w)) => match (g, ref_decode($w, w)) {
                        (Ok(x), Some(v)) => x.0 as u64 == v,
                        (Err(_), None) => true,
                        _ => false,
                    },
                    _ => false,
                };
                ensure!(
                    ok,
                    "c06-first-read",
                    "option {n}: get_first_option_as at width {} returned {first:?} for stored {:?}",
                    $w,
                    want.first().map(|b| hex(b))
                );
            }};
        }
        typed_read!(OptionValueU8, 1);
        typed_read!(OptionValueU16, 2);
        typed_read!(OptionValueU32, 4);
        typed_read!(OptionValueU64, 8);
        let got = p.get_options_as::<OptionValueString>(o).unwrap_or_default();
        ensure!(got.len() == want.len(), "c06-typed-read-length", "option {n}: string read length");
        for (g, w) in got.iter().zip(want.iter()) {
            let r = std::str::from_utf8(w).ok();
            let ok = match (g, r) {
                (Ok(s), Some(t)) => s.0 == t,
                (Err(_), None) => true,
                _ => false,
            };
            ensure!(ok, "c06-string-read", "option {n}: {} read as {g:?}, std says {r:?}", hex(w));
        }
        if want.iter().any(|w| w.len() > 4) {
            nontrivial = true;
            acc.class("over-long-raw-value-read-as-u32");
        }
    }
    // observe accessor
    let want = model.get(&6).and_then(|l| l.first());
    let got = p.get_observe_value();
    let ok = match (&got, want) {
        (None, None) => true,
        (Some(Ok(v)), Some(w)) => ref_decode(4, w) == Some(*v as u64),
        (Some(Err(_)), Some(w)) => ref_decode(4, w).is_none(),
        _ => false,
    };
    ensure!(
        ok,
        "c06-observe-accessor",
        "get_observe_value returned {got:?} for stored {:?}",
        want.map(|b| hex(b))
    );
    if nontrivial {
        acc.nontrivial(fp(ops));
    }
    acc.sample("accessor-history", || json!(ops));
    Ok(())
}

fn boundary_u64() -> Vec<u64> {
    let mut v = vec![0u64, 1, u64::MAX, u32::MAX as u64, u16::MAX as u64, 255, 256];
    for k in 0..64 {
        let p = 1u64 << k;
        v.extend([p, p.wrapping_sub(1), p.wrapping_add(1)]);
    }
    for k in 1..8 {
        let p = 256u64.pow(k);
        v.extend([p, p - 1, p + 1, p * 255, p | 1]);
    }
    v.sort();
    v.dedup();
    v
}

fn typed() -> BoxedStrategy<Typed> {
    prop_oneof![
        any::<u8>().prop_map(Typed::U8),
        prop_oneof![any::<u16>(), Just(0u16), Just(255), Just(256)].prop_map(Typed::U16),
        prop_oneof![any::<u32>(), Just(0u32), Just(65535), Just(65536), Just(1 << 24)].prop_map(Typed::U32),
        any::<u64>().prop_map(Typed::U64),
        "\\PC{0,6}".prop_map(Typed::Str),
        proptest::collection::vec(any::<u8>(), 0..10).prop_map(Typed::Raw),
        proptest::collection::vec(prop_oneof![Just(0u8), any::<u8>()], 0..6).prop_map(Typed::Raw),
    ]
    .boxed()
}

pub fn run(ctx: &Ctx, rep: &mut Report) {
    rep.assume("std's UTF-8 validator is the oracle for text options");
    // 1. every u8 / u16 value at every width that can hold it
    run_enum_chunks(
        ctx,
        rep,
        "uint-encode-all-u16",
        "every value 0..=65535 encoded at widths 2, 4, 8 (and 1 for values < 256) and decoded back; non-trivial = value >= 256",
        true,
        32,
        |c| {
            (c as u64 * 2048..(c as u64 + 1) * 2048).flat_map(|v| {
                let mut w = vec![2u8, 4, 8];
                if v < 256 {
                    w.push(1);
                }
                w.into_iter().map(move |width| EncCase { width, value: v })
            })
        },
        |ctx, c: &EncCase, acc| check_enc(ctx, c, acc, true),
    );
    // 2. every byte string up to k bytes decoded at every width
    let k = ctx.pick(2usize, 3usize);
    let total: u64 = (0..=k).map(|l| 256u64.pow(l as u32)).sum();
    run_enum_chunks(
        ctx,
        rep,
        "uint-decode-all-short-strings",
        &format!("every byte string of length 0..={k} decoded at widths 1, 2, 4, 8; non-trivial = leading zero, over-long, or >= 2 bytes"),
        true,
        64,
        |c| {
            let lo = total * c as u64 / 64;
            let hi = total * (c as u64 + 1) / 64;
            (lo..hi).flat_map(move |i| {
                let mut idx = i;
                let mut bytes = vec![];
                for l in 0..=k {
                    let n = 256u64.pow(l as u32);
                    if idx < n {
                        bytes = vec![0u8; l];
                        for j in (0..l).rev() {
                            bytes[j] = (idx & 0xff) as u8;
                            idx >>= 8;
                        }
                        break;
                    }
                    idx -= n;
                }
                [1u8, 2, 4, 8].into_iter().map(move |width| DecCase { width, bytes: bytes.clone() })
            })
        },
        |ctx, c: &DecCase, acc| check_dec(ctx, c, acc, true),
    );
    // 3. 32/64-bit boundaries
    let mut cases = Vec::new();
    for v in boundary_u64() {
        for width in [4u8, 8] {
            cases.push(EncCase { width, value: v });
        }
    }
    run_list(
        ctx,
        rep,
        "uint-encode-boundaries-32-64",
        "every 2^k, 2^k+-1, 256^k, 256^k+-1 and MAX at widths 4 and 8",
        true,
        cases,
        |ctx, c: &EncCase, acc| check_enc(ctx, c, acc, true),
    );
    let n = ctx.cases(100_000, 5_000_000);
    run_prop(
        ctx,
        rep,
        "uint-encode-random",
        "random 64-bit values (uniform and uniform-in-bit-length) at widths 4 and 8; distinct by value",
        n,
        || {
            (
                prop_oneof![Just(4u8), Just(8u8)],
                prop_oneof![any::<u64>(), (0u32..64, any::<u64>()).prop_map(|(s, v)| v >> s)],
            )
                .prop_map(|(width, value)| EncCase { width, value })
        },
        |ctx, c: &EncCase, acc| check_enc(ctx, c, acc, false),
    );
    let n = ctx.cases(100_000, 5_000_000);
    run_prop(
        ctx,
        rep,
        "uint-decode-random",
        "random byte strings of length 0..=10 (with forced leading zeros in a third of cases) decoded at every width",
        n,
        || {
            (
                prop_oneof![Just(1u8), Just(2u8), Just(4u8), Just(8u8)],
                prop_oneof![3 => 0usize..3, 2 => 0usize..=10],
                proptest::collection::vec(any::<u8>(), 0..=10),
            )
                .prop_map(|(width, zeros, mut bytes)| {
                    for b in bytes.iter_mut().take(zeros) {
                        *b = 0;
                    }
                    DecCase { width, bytes }
                })
        },
        |ctx, c: &DecCase, acc| check_dec(ctx, c, acc, false),
    );
    // 4. strings
    let n = ctx.cases(50_000, 2_000_000);
    run_prop(
        ctx,
        rep,
        "text-options",
        "random Unicode strings (all planes) round-tripped, and random / mutated byte strings decoded: Ok exactly when std::str::from_utf8 accepts; non-trivial = multi-byte or invalid input",
        n,
        || {
            prop_oneof![
                2 => "\\PC{0,12}".prop_map(|s: String| s.into_bytes()),
                // long texts (option values may be up to 65804 bytes long)
                1 => ("[a-zé€😁 ]{1,8}", prop_oneof![Just(30usize), Just(140), Just(255), Just(256), Just(1034), Just(1035), Just(1300), Just(65_535), Just(65_536), Just(65_800), 1usize..9000])
                    .prop_map(|(unit, n)| unit.repeat(n / unit.len().max(1) + 1).into_bytes()),
                1 => proptest::collection::vec(any::<char>(), 0..8).prop_map(|v| v.into_iter().collect::<String>().into_bytes()),
                2 => ("\\PC{1,8}", any::<prop::sample::Index>(), any::<u8>()).prop_map(|(s, i, x)| {
                    let mut b = s.into_bytes();
                    let k = i.index(b.len());
                    b[k] = x;
                    b
                }),
                1 => ("\\PC{1,8}", any::<prop::sample::Index>()).prop_map(|(s, i)| {
                    let mut b = s.into_bytes();
                    let k = i.index(b.len());
                    b.truncate(k);
                    b
                }),
                // plain ASCII of 8..200 bytes with one byte >= 0x80 somewhere, often near the end
                1 => (8usize..200, any::<prop::sample::Index>(), 0x80u8..=0xFF, any::<bool>()).prop_map(|(len, i, x, tail)| {
                    let mut b: Vec<u8> = (0..len).map(|k| b'a' + (k % 26) as u8).collect();
                    let k = if tail { len - 1 - i.index(len.min(8)) } else { i.index(len) };
                    b[k] = x;
                    b
                }),
                // long texts with one byte replaced / cut in the middle of a character
                1 => ("[a-zé€😁]{2,6}", 40usize..400, any::<prop::sample::Index>(), any::<u8>(), any::<bool>()).prop_map(|(unit, reps, i, x, cut)| {
                    let mut b = unit.repeat(reps).into_bytes();
                    let k = i.index(b.len());
                    if cut {
                        // cut inside the last character
                        let mut end = b.len() - 1;
                        while end > 0 && (b[end] & 0xC0) == 0x80 {
                            end -= 1;
                        }
                        b.truncate(end + 1);
                    } else {
                        b[k] = x;
                    }
                    b
                }),
                1 => proptest::collection::vec(any::<u8>(), 0..8),
                1 => proptest::sample::select(vec![
                    vec![0xC0u8, 0x80], vec![0xED, 0xA0, 0x80], vec![0xF4, 0x90, 0x80, 0x80],
                    vec![0xE0, 0x80, 0x80], vec![0xFF], vec![0xF8, 0x88, 0x80, 0x80, 0x80], vec![0xC2],
                ]),
            ]
        },
        |_ctx, b: &Vec<u8>, acc| {
            let std_ok = std::str::from_utf8(b).ok().map(|s| s.to_string());
            let got = catch(|| OptionValueString::try_from(b.clone()));
            let got = match got {
                Ok(g) => g,
                Err(msg) => fail!("c06-string-panic", "decoding {} panicked: {msg}", hex(b)),
            };
            match (&got, &std_ok) {
                (Ok(s), Some(t)) => {
                    ensure!(&s.0 == t, "c06-string-value", "{} decoded as {:?}", hex(b), s.0);
                    let enc = Vec::from(OptionValueString(t.clone()));
                    ensure!(&enc == b, "c06-string-bytes", "string {t:?} encodes as {}, its bytes are {}", hex(&enc), hex(b));
                    acc.class("valid-utf8");
                }
                (Err(_), None) => acc.class("invalid-utf8"),
                (Ok(s), None) => fail!("c06-invalid-utf8-accepted", "invalid UTF-8 {} accepted as {:?}", hex(b), s.0),
                (Err(e), Some(t)) => fail!("c06-valid-utf8-rejected", "valid UTF-8 {t:?} rejected: {}", e.message),
            }
            if std_ok.is_none() || b.iter().any(|x| *x >= 0x80) {
                acc.nontrivial(fp(b));
            }
            acc.sample("text", || json!(hex(b)));
            Ok(())
        },
    );
    // 5. accessors
    let n = ctx.cases(40_000, 1_500_000);
    run_prop(
        ctx,
        rep,
        "typed-accessor-histories",
        "random sequences of add_option_as / set_options_as / set_observe_value / set_content_format / clear_option mixed with raw (over-long, leading-zero, invalid UTF-8) values; raw lists must equal the reference encodings in order and every typed getter the reference decodes element by element; non-trivial = a number holding >= 2 values or an over-long value",
        n,
        || {
            let num = prop_oneof![3 => proptest::sample::select(vec![6u16, 7, 12, 14, 60, 11]), 1 => any::<u16>()];
            proptest::collection::vec(
                prop_oneof![
                    6 => (num.clone(), typed()).prop_map(|(n, t)| AccOp::Add(n, t)),
                    1 => (num.clone(), proptest::collection::vec(any::<u32>(), 0..4)).prop_map(|(n, l)| AccOp::SetU32(n, l)),
                    1 => (num.clone(), proptest::collection::vec(any::<u16>(), 0..4)).prop_map(|(n, l)| AccOp::SetU16(n, l)),
                    1 => (num.clone(), proptest::collection::vec("\\PC{0,4}", 0..3)).prop_map(|(n, l)| AccOp::SetStr(n, l)),
                    2 => prop_oneof![any::<u32>(), Just(0u32), Just(1), Just(1 << 24)].prop_map(AccOp::SetObserve),
                    1 => num.prop_map(AccOp::Clear),
                    1 => any::<u16>().prop_map(AccOp::SetContentFormat),
                    1 => proptest::sample::select(vec![0x00u8, 0x01, 0x02, 0x45, 0x44, 0x84, 0xFF]).prop_map(AccOp::Code),
                ],
                1..8,
            )
        },
        check_accessors,
    );
}
