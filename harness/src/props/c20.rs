//! C20 — cached block-transfer state lives exactly as long as configured.

use std::cmp::Ordering;
use std::sync::atomic::{AtomicIsize, Ordering as AO};
use std::sync::Arc;
use std::time::Duration;

use coap_lite::BlockHandler;
use proptest::prelude::*;
use serde::{Deserialize, Serialize};
use serde_json::json;

use crate::blockwise::*;
use crate::engine::*;
use crate::{ensure, fail};

/// Endpoint whose live clones are counted, so that cache entries (which keep
/// the endpoint inside their key) are visible without any hook.
pub struct CountedEp {
    pub id: u32,
    pub live: Arc<AtomicIsize>,
}

impl CountedEp {
    pub fn new(id: u32, live: &Arc<AtomicIsize>) -> CountedEp {
        live.fetch_add(1, AO::SeqCst);
        CountedEp { id, live: live.clone() }
    }
}
impl Clone for CountedEp {
    fn clone(&self) -> Self {
        self.live.fetch_add(1, AO::SeqCst);
        CountedEp { id: self.id, live: self.live.clone() }
    }
}
impl Drop for CountedEp {
    fn drop(&mut self) {
        self.live.fetch_sub(1, AO::SeqCst);
    }
}
impl PartialEq for CountedEp {
    fn eq(&self, o: &Self) -> bool {
        self.id == o.id
    }
}
impl Eq for CountedEp {}
impl PartialOrd for CountedEp {
    fn partial_cmp(&self, o: &Self) -> Option<Ordering> {
        Some(self.cmp(o))
    }
}
impl Ord for CountedEp {
    fn cmp(&self, o: &Self) -> Ordering {
        self.id.cmp(&o.id)
    }
}

#[derive(Clone, Debug, PartialEq, Eq, Hash, Serialize, Deserialize)]
pub enum Case {
    Retention { upload: bool, intervening: u16, seed: u16, buffered_blocks: u8 },
    Expiry {
        upload: bool,
        millis: u16,
        #[serde(default)]
        busy: bool,
        /// after the idle period the key is first touched by a plain request
        /// with a small reply, then by the follow-up block request
        #[serde(default)]
        plain_first: bool,
    },
    Reclaim {
        abandoned: u8,
        millis: u16,
        uploads: bool,
        #[serde(default)]
        busy: bool,
        /// what the single "next use" of the handler is: 0 plain GET, 1 an
        /// oversized request without Block1 (answered 4.13), 2 an upload
        /// block, 3 a Block2 request, 4 an ACK-typed message
        #[serde(default)]
        next_use: u8,
    },
}

const BUDGET: usize = 96;

fn get(path: &[u8], mid: u16, method: u8, block2: Option<Vec<u8>>) -> ReqSpec {
    ReqSpec {
        mtype: 0,
        token: vec![mid as u8, 1],
        mid,
        method,
        path: path.split(|b| *b == b'|').map(|x| x.to_vec()).collect(),
        extra: vec![],
        block1: None,
        block2,
        payload: vec![],
    }
}

fn put(path: &[u8], mid: u16, method: u8, block1: Vec<u8>, payload: Vec<u8>) -> ReqSpec {
    ReqSpec {
        mtype: 0,
        token: vec![mid as u8, 2],
        mid,
        method,
        path: path.split(|b| *b == b'|').map(|x| x.to_vec()).collect(),
        extra: vec![],
        block1: Some(block1),
        block2: None,
        payload,
    }
}

fn big_reply(seed: u8) -> AppSpec {
    AppSpec { code: 0x45, options: vec![(12, vec![42])], body: body(300, seed) }
}

fn small_reply() -> AppSpec {
    AppSpec { code: 0x44, options: vec![], body: b"ok".to_vec() }
}

fn do_exchange(
    h: &mut BlockHandler<CountedEp>,
    ep: &CountedEp,
    req: &ReqSpec,
    reply: &AppSpec,
) -> Result<(Outcome, usize), Fail> {
    let mut calls = 0;
    let out = exchange(h, &req.msg().encode().unwrap(), ep.clone(), &mut |_r| {
        calls += 1;
        Some(reply.clone())
    });
    if let Some(m) = out.panicked() {
        fail!("c20-panic", "handler panicked: {m}");
    }
    Ok((out, calls))
}

/// Opens a Block2 download on `path` (block 0 fetched, rest cached).
fn open_download(h: &mut BlockHandler<CountedEp>, ep: &CountedEp, path: &[u8], seed: u8) -> Result<Block, Fail> {
    let (out, calls) = do_exchange(h, ep, &get(path, 1, 1, None), &big_reply(seed))?;
    let blk = out
        .response
        .as_ref()
        .and_then(|r| find_opt(r, OPT_BLOCK2).and_then(|b| parse_block(b)));
    match blk {
        Some(b) if b.more && calls == 1 => Ok(b),
        _ => fail!("harness", "opening a fragmented download did not work: {:?}", out.intercept_response),
    }
}

fn traffic_on_other_keys(h: &mut BlockHandler<CountedEp>, live: &Arc<AtomicIsize>, n: usize, seed: u16) -> Result<(), Fail> {
    // keys that differ from K = (endpoint 1, method, ["k"]) in exactly one
    // component, among them paths that only look like K's
    let me = CountedEp::new(1, live);
    for (j, p) in [&b"k/v"[..], b"k|v|", b"|k|v", b"k", b"k|V", b"k|v|v"].iter().enumerate() {
        if n > j {
            do_exchange(h, &me, &get(p, 900 + j as u16, 1, None), &big_reply(0xD0 + j as u8))?;
            do_exchange(h, &me, &put(p, 910 + j as u16, 3, block_bytes(0, true, 0), vec![0x99; 16]), &small_reply())?;
        }
    }
    let other = CountedEp::new(2, live);
    if n > 6 {
        do_exchange(h, &other, &get(b"k|v", 920, 1, None), &big_reply(0xE0))?;
        do_exchange(h, &other, &put(b"k|v", 921, 3, block_bytes(0, true, 0), vec![0x98; 16]), &small_reply())?;
        do_exchange(h, &me, &get(b"k|v", 922, 5, None), &big_reply(0xE1))?;
        do_exchange(h, &me, &put(b"k|v", 923, 2, block_bytes(0, true, 0), vec![0x97; 16]), &small_reply())?;
    }
    for i in 0..n {
        let x = (seed as usize).wrapping_mul(31).wrapping_add(i * 7);
        let ep = CountedEp::new(1000 + (x % 97) as u32, live);
        let path = format!("other{}", x % 53).into_bytes();
        match x % 5 {
            0 => {
                do_exchange(h, &ep, &get(&path, i as u16, 1, None), &small_reply())?;
            }
            1 => {
                // a download that is started and abandoned
                do_exchange(h, &ep, &get(&path, i as u16, 5, None), &big_reply(i as u8))?;
            }
            2 => {
                // a complete small download with early negotiation
                do_exchange(h, &ep, &get(&path, i as u16, 1, Some(block_bytes(0, false, 0))), &small_reply())?;
            }
            3 => {
                // an upload that is started and abandoned - in half of the
                // cases by K's own endpoint, each on a path of its own
                if seed & 1 == 1 {
                    let mine = format!("mine{i}").into_bytes();
                    do_exchange(h, &me, &put(&mine, i as u16, 3, block_bytes(0, true, 0), vec![0x11; 16]), &small_reply())?;
                } else {
                    do_exchange(h, &ep, &put(&path, i as u16, 3, block_bytes(0, true, 0), vec![0x11; 16]), &small_reply())?;
                }
            }
            _ => {
                // a complete two-block upload
                do_exchange(h, &ep, &put(&path, i as u16, 2, block_bytes(0, true, 0), vec![0x22; 16]), &small_reply())?;
                do_exchange(h, &ep, &put(&path, i as u16, 2, block_bytes(1, false, 0), vec![0x33; 5]), &small_reply())?;
            }
        }
    }
    Ok(())
}

/// Stays away from key K for more than four times the expiry.  When `busy`,
/// the handler keeps serving other keys at intervals shorter than the expiry.
fn idle(h: &mut BlockHandler<CountedEp>, live: &Arc<AtomicIsize>, d: Duration, busy: bool) -> Result<(), Fail> {
    let total = d * 4 + Duration::from_millis(20);
    if !busy {
        std::thread::sleep(total);
        return Ok(());
    }
    let t0 = std::time::Instant::now();
    let step = d / 5;
    let mut i = 0u16;
    while t0.elapsed() < total {
        std::thread::sleep(step);
        // every fifth of the expiry other keys see a plain exchange, a
        // download that gets cached and an upload block that gets buffered
        let ep = CountedEp::new(5000 + (i % 3) as u32, live);
        do_exchange(h, &ep, &get(b"busy", i, 1, None), &small_reply())?;
        do_exchange(h, &ep, &get(b"busy2", i, 1, None), &big_reply(i as u8))?;
        do_exchange(h, &ep, &put(b"busy3", i, 3, block_bytes(0, true, 0), vec![0x66; 16]), &small_reply())?;
        i += 1;
    }
    Ok(())
}

pub fn check(_ctx: &Ctx, c: &Case, acc: &mut Acc) -> Result<(), Fail> {
    let live = Arc::new(AtomicIsize::new(0));
    match c {
        Case::Retention { upload, intervening, seed, buffered_blocks } => {
            let mut h: BlockHandler<CountedEp> = new_handler(BUDGET, HOUR);
            let me = CountedEp::new(1, &live);
            if *upload {
                let data = body(16 * (*buffered_blocks as usize + 1) + 5, *seed as u8);
                let chunks: Vec<&[u8]> = data.chunks(16).collect();
                for (i, ch) in chunks.iter().enumerate().take(chunks.len() - 1) {
                    let (out, calls) = do_exchange(&mut h, &me, &put(b"k|v", i as u16, 3, block_bytes(i as u32, true, 0), ch.to_vec()), &small_reply())?;
                    ensure!(calls == 0 && out.served_by_handler(), "harness", "buffering a block did not work");
                }
                traffic_on_other_keys(&mut h, &live, *intervening as usize, *seed)?;
                let last = chunks.len() - 1;
                let (out, calls) = do_exchange(&mut h, &me, &put(b"k|v", 99, 3, block_bytes(last as u32, false, 0), chunks[last].to_vec()), &small_reply())?;
                ensure!(
                    calls == 1 && out.app_saw.as_deref() == Some(&data[..]),
                    "c20-upload-state-lost",
                    "after {intervening} intervening requests on other keys (expiry one hour) the continued upload delivered {} bytes {} instead of the {} bytes sent",
                    out.app_saw.as_ref().map(|b| b.len()).unwrap_or(0),
                    if out.app_saw.as_ref().map(|b| b.iter().take(16).all(|x| *x == 0)).unwrap_or(false) { "(zero-filled start)" } else { "" },
                    data.len()
                );
                acc.class("retention:upload");
            } else {
                let blk = open_download(&mut h, &me, b"k|v", *seed as u8)?;
                traffic_on_other_keys(&mut h, &live, *intervening as usize, *seed)?;
                let (out, calls) = do_exchange(&mut h, &me, &get(b"k|v", 2, 1, Some(block_bytes(1, false, blk.szx))), &big_reply(0xEE))?;
                let want = &body(300, *seed as u8)[blk.size()..2 * blk.size()];
                ensure!(
                    calls == 0 && out.served_by_handler(),
                    "c20-download-state-lost",
                    "after {intervening} intervening requests on other keys (expiry one hour) the follow-up block request was passed to the application instead of being served from the cache"
                );
                ensure!(
                    out.response.as_ref().map(|r| &r.payload[..]) == Some(want),
                    "c20-download-state-lost",
                    "after {intervening} intervening requests the follow-up block does not carry the cached body's bytes"
                );
                acc.class("retention:download");
            }
            if *intervening >= 100 {
                acc.nontrivial(fp(c));
                acc.class("retention:>=100-intervening");
            }
        }
        Case::Expiry { upload, millis, busy, plain_first } => {
            let d = Duration::from_millis(*millis as u64);
            let mut h: BlockHandler<CountedEp> = new_handler(BUDGET, d);
            let me = CountedEp::new(1, &live);
            if *upload {
                let first = vec![0xAB; 16];
                let (out, calls) = do_exchange(&mut h, &me, &put(b"k|v", 1, 3, block_bytes(0, true, 0), first.clone()), &small_reply())?;
                ensure!(calls == 0 && out.served_by_handler(), "harness", "buffering a block did not work");
                idle(&mut h, &live, d, *busy)?;
                if *plain_first {
                    // a request without block options on the same key (PUT with a small body)
                    let mut plain = put(b"k|v", 50, 3, vec![], vec![0xEF; 3]);
                    plain.block1 = None;
                    do_exchange(&mut h, &me, &plain, &small_reply())?;
                    acc.class("expiry:plain-request-first");
                }
                let (out, calls) = do_exchange(&mut h, &me, &put(b"k|v", 2, 3, block_bytes(1, false, 0), vec![0xCD; 7]), &small_reply())?;
                if calls == 1 {
                    let saw = out.app_saw.clone().unwrap_or_default();
                    ensure!(
                        !saw.windows(4).any(|w| w == [0xAB; 4]),
                        "c20-expired-upload-state-used",
                        "an upload idle for more than four times the {millis} ms expiry was continued from the old buffer: the delivered body still contains the earlier block's bytes"
                    );
                }
                acc.class("expiry:upload");
            } else {
                let blk = open_download(&mut h, &me, b"k|v", 9)?;
                idle(&mut h, &live, d, *busy)?;
                if *plain_first {
                    do_exchange(&mut h, &me, &get(b"k|v", 50, 1, None), &small_reply())?;
                    acc.class("expiry:plain-request-first");
                }
                let (out, calls) = do_exchange(&mut h, &me, &get(b"k|v", 2, 1, Some(block_bytes(1, false, blk.szx))), &big_reply(0x44))?;
                ensure!(
                    calls == 1 && !out.served_by_handler(),
                    "c20-expired-download-state-used",
                    "a follow-up block request after more than four times the {millis} ms expiry was served from the expired cache instead of being passed to the application"
                );
                acc.class("expiry:download");
            }
            if *busy {
                acc.class("expiry:handler-busy-with-other-keys");
            }
            acc.nontrivial(fp(c));
        }
        Case::Reclaim { abandoned, millis, uploads, busy, next_use } => {
            let d = Duration::from_millis(*millis as u64);
            let mut h: BlockHandler<CountedEp> = new_handler(BUDGET, d);
            let mine: Vec<CountedEp> = (0..*abandoned as u32).map(|i| CountedEp::new(10 + i, &live)).collect();
            for (i, ep) in mine.iter().enumerate() {
                if *uploads && i % 2 == 1 {
                    do_exchange(&mut h, ep, &put(b"k|v", i as u16, 3, block_bytes(0, true, 0), vec![0x5A; 16]), &small_reply())?;
                } else {
                    open_download(&mut h, ep, b"k|v", i as u8)?;
                }
            }
            let held = live.load(AO::SeqCst) - mine.len() as isize;
            // (the cache keeps each key in its map and in its recency list)
            ensure!(
                held >= mine.len() as isize,
                "harness",
                "expected at least one cached key per abandoned transfer, the handler holds {held} endpoint clones for {} transfers",
                mine.len()
            );
            let busy_live = Arc::new(AtomicIsize::new(0));
            idle(&mut h, &busy_live, d, *busy)?;
            if *busy {
                acc.class("reclamation:handler-busy-with-other-keys");
            }
            // one use of the handler, on a fresh key
            let fresh_live = Arc::new(AtomicIsize::new(0));
            let fresh = CountedEp::new(9999, &fresh_live);
            let mut next = match next_use % 5 {
                1 => {
                    let mut r = put(b"fresh", 7, 3, vec![], vec![0x42; 400]);
                    r.block1 = None;
                    r
                }
                2 => put(b"fresh", 7, 3, block_bytes(0, true, 0), vec![0x42; 16]),
                3 => get(b"fresh", 7, 1, Some(block_bytes(0, false, 1))),
                _ => get(b"fresh", 7, 1, None),
            };
            if next_use % 5 == 4 {
                next.mtype = 2;
            }
            do_exchange(&mut h, &fresh, &next, &small_reply())?;
            match next_use % 5 {
                1 => acc.class("reclamation:next-use-is-an-oversized-request"),
                2 => acc.class("reclamation:next-use-is-an-upload-block"),
                3 => acc.class("reclamation:next-use-is-a-block2-request"),
                4 => acc.class("reclamation:next-use-is-an-ack"),
                _ => acc.class("reclamation:next-use-is-a-plain-get"),
            }
            let held = live.load(AO::SeqCst) - mine.len() as isize;
            ensure!(
                held == 0,
                "c20-expired-state-not-reclaimed",
                "{} abandoned transfers expired ({millis} ms, idle for more than four times that), but after the next use of the handler it still holds {held} of their cache entries",
                mine.len()
            );
            #[cfg(feature = "hooks")]
            {
                let (entries, _bytes) = h.verif_live_entries();
                ensure!(
                    entries <= 1 + if *busy { 9 } else { 0 },
                    "c20-expired-state-not-reclaimed",
                    "after expiry and one further request the handler reports {entries} live cache entries"
                );
            }
            acc.class("reclamation");
            acc.nontrivial(fp(c));
        }
    }
    acc.sample("case", || json!(c));
    Ok(())
}

pub fn run(ctx: &Ctx, rep: &mut Report) {
    rep.assume("real time: only 'must be expired after at least four times the configured duration plus 20 ms' and 'must be alive under a one-hour expiry' are asserted, so scheduling delays cannot raise a false alarm");
    rep.assume("reclamation is observed through live clones of a Clone/Drop-counting endpoint type (the cache keeps the endpoint inside its key); the verif_hooks entry count is a cross-check when available");
    let n = ctx.cases(320, 5_000);
    run_prop(
        ctx,
        rep,
        "retention-under-intervening-traffic",
        "expiry one hour: a Block2 download (cached after block 0) or a Block1 upload (1..=4 blocks buffered) on key K, then 1..=2000 exchanges on other keys (plain, abandoned and complete downloads and uploads, ~97 endpoints x 53 paths x 4 methods; in half of the cases the abandoned uploads come from K's own endpoint on distinct paths), then K is continued; non-trivial = >= 100 intervening exchanges",
        n,
        || {
            (any::<bool>(), prop_oneof![2 => 1u16..=60, 3 => 100u16..=2000], any::<u16>(), 1u8..=4)
                .prop_map(|(upload, intervening, seed, buffered_blocks)| Case::Retention { upload, intervening, seed, buffered_blocks })
        },
        check,
    );
    let n = ctx.cases(64, 800);
    run_prop(
        ctx,
        rep,
        "expiry-after-idle",
        "expiry 20..=60 ms: open a download / buffer an upload block, leave key K idle for 4x the duration + 20 ms (in half of the cases while the handler keeps serving other keys at intervals of a third of the expiry), continue: the follow-up must reach the application / the upload must not contain the earlier bytes",
        n,
        || (any::<bool>(), 20u16..=60, any::<bool>(), any::<bool>()).prop_map(|(upload, millis, busy, plain_first)| Case::Expiry { upload, millis, busy, plain_first }),
        check,
    );
    let n = ctx.cases(48, 300);
    run_prop(
        ctx,
        rep,
        "reclamation-on-next-use",
        "1..=50 transfers abandoned under distinct endpoints, left idle past the expiry (in half of the cases while the handler stays busy with other keys), one use of the handler on a fresh key (a plain GET, an oversized request without Block1, an upload block, a Block2 request or an ACK-typed message): no endpoint clone of the abandoned transfers may remain alive inside the handler",
        n,
        || (1u8..=50, 20u16..=40, any::<bool>(), any::<bool>(), 0u8..5).prop_map(|(abandoned, millis, uploads, busy, next_use)| Case::Reclaim { abandoned, millis, uploads, busy, next_use }),
        check,
    );
}
