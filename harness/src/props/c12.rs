//! C12 — concurrent block transfers are isolated; replies belong to the
//! request being answered.

use coap_lite::BlockHandler;
use proptest::prelude::*;
use serde::{Deserialize, Serialize};
use serde_json::json;

use crate::blockwise::*;
use crate::engine::*;
use crate::pkt::hex;
use crate::{ensure, fail};

#[derive(Clone, Debug, PartialEq, Eq, Hash, Serialize, Deserialize)]
pub struct Transfer {
    pub upload: bool,
    pub endpoint: u8,
    pub method: u8,
    pub path: Vec<Vec<u8>>,
    pub szx: u8,
    /// number of exchanges the transfer takes when run alone (3..=5)
    pub exchanges: u8,
    pub remainder: u8,
    pub seed: u8,
    pub token_len: u8,
    pub early: bool,
    /// token length changes from request to request (fresh tokens need not
    /// have one length)
    #[serde(default)]
    pub vary_token_len: bool,
    /// Uri-Query values carried by every request of the transfer
    #[serde(default)]
    pub query: Vec<Vec<u8>>,
    /// the handler's budget, so that a download without early negotiation
    /// gets a body of the intended number of blocks
    #[serde(default)]
    pub budget: usize,
    /// downloads: the second request asks for block 0 again, with the largest
    /// block size (a client that changed its mind)
    #[serde(default)]
    pub reask_first: bool,
    /// downloads: body length, when it is not derived from the number of
    /// exchanges (transfers of one length with different block sizes)
    #[serde(default)]
    pub body_override: Option<u16>,
}

#[derive(Clone, Debug, PartialEq, Eq, Hash, Serialize, Deserialize)]
pub struct ScriptSet {
    pub budget: usize,
    pub transfers: Vec<Transfer>,
    pub differ_in: String,
}

impl Transfer {
    fn size(&self) -> usize {
        16usize << self.szx
    }
    fn body_len(&self) -> usize {
        if let (false, Some(n)) = (self.upload, self.body_override) {
            return n as usize;
        }
        let n = self.exchanges.max(1) as usize;
        let mut size = self.size();
        if !self.upload && !self.early && self.budget > 0 {
            // the server picks the largest power of two that fits its budget
            // (reply overhead: header, token, ETag, Content-Format; 12 reserved)
            let overhead = 4 + self.token_len.min(8) as usize + 3 + 2 + 12;
            let room = self.budget.saturating_sub(overhead).clamp(16, 1024);
            size = 1usize << (usize::BITS - 1 - room.leading_zeros());
        }
        (n - 1) * size + 1 + (self.remainder as usize % size)
    }
    fn data(&self) -> Vec<u8> {
        body(self.body_len(), self.seed)
    }
    fn req(&self, idx: usize, step: usize, block1: Option<Vec<u8>>, block2: Option<Vec<u8>>, payload: Vec<u8>) -> ReqSpec {
        let mid = (idx as u16 + 1) * 1000 + step as u16 * 7 + self.seed as u16;
        ReqSpec {
            mtype: 0,
            token: {
                let len = if self.vary_token_len {
                    (self.token_len as usize + step * 3) % 9
                } else {
                    self.token_len.min(8) as usize
                };
                (0..len as u8).map(|i| (mid as u8) ^ i.wrapping_mul(37) ^ 0x80).collect()
            },
            mid,
            method: self.method,
            path: self.path.clone(),
            extra: self.query.iter().map(|q| (15u16, q.clone())).collect(),
            block1,
            block2,
            payload,
        }
    }
    /// What the application answers for this transfer (a function of the
    /// transfer and of what the application is shown).
    fn app_reply(&self, saw: &[u8]) -> AppSpec {
        if self.upload {
            let mut sum = 0u32;
            for b in saw {
                sum = sum.wrapping_mul(31).wrapping_add(*b as u32);
            }
            AppSpec {
                code: 0x44,
                options: vec![(4, sum.to_be_bytes().to_vec())],
                body: format!("len={}", saw.len()).into_bytes(),
            }
        } else {
            AppSpec {
                code: 0x45,
                options: vec![(4, vec![self.seed, 0xEE]), (12, vec![42])],
                body: self.data(),
            }
        }
    }
}

#[derive(Clone, Debug, PartialEq, Eq)]
pub struct Entry {
    pub response: Option<Vec<u8>>,
    pub app_called: bool,
    pub app_saw: Option<Vec<u8>>,
    pub note: String,
}

fn one_exchange(
    handler: &mut BlockHandler<u8>,
    t: &Transfer,
    req: &ReqSpec,
) -> Result<(Entry, Outcome), Fail> {
    let bytes = req.msg().encode().map_err(|e| Fail::new("harness", format!("{e:?}")))?;
    let out = exchange(handler, &bytes, t.endpoint, &mut |r| Some(t.app_reply(&r.message.payload)));
    if let Some(msg) = out.panicked() {
        fail!("c12-panic", "handler panicked: {msg}");
    }
    // every reply belongs to the request being answered
    if let Some(resp) = &out.response {
        ensure!(
            resp.mid == req.mid,
            "c12-reply-message-id",
            "reply to request mid={} carries message id {} (cache-served: {})",
            req.mid,
            resp.mid,
            out.served_by_handler()
        );
        ensure!(
            resp.token == req.token,
            "c12-reply-token",
            "reply to request token={} carries token {} (cache-served: {})",
            hex(&req.token),
            hex(&resp.token),
            out.served_by_handler()
        );
    }
    let note = match (&out.intercept_request, &out.intercept_response) {
        (Step::Err(e), _) => format!("req-err {:?}", e.code),
        (_, Some(Step::Err(e))) => format!("resp-err {:?}", e.code),
        (Step::Ok(b), _) => format!("ok {b}"),
        _ => String::new(),
    };
    Ok((
        Entry {
            response: out.response_bytes.clone(),
            app_called: out.app_called,
            app_saw: out.app_saw.clone(),
            note,
        },
        out,
    ))
}

/// Runs a transfer alone with an adaptive client and records the requests it
/// sent and what it observed.
fn solo(budget: usize, idx: usize, t: &Transfer) -> Result<(Vec<ReqSpec>, Vec<Entry>), Fail> {
    let mut handler: BlockHandler<u8> = new_handler(budget, HOUR);
    let mut reqs = Vec::new();
    let mut entries = Vec::new();
    if t.upload {
        let data = t.data();
        let chunks: Vec<&[u8]> = data.chunks(t.size()).collect();
        for (i, c) in chunks.iter().enumerate() {
            let req = t.req(idx, i, Some(block_bytes(i as u32, i + 1 < chunks.len(), t.szx)), None, c.to_vec());
            let (e, _) = one_exchange(&mut handler, t, &req)?;
            reqs.push(req);
            entries.push(e);
        }
    } else {
        let mut b2 = if t.early { Some(block_bytes(0, false, t.szx)) } else { None };
        let mut received = 0usize;
        for step in 0..t.exchanges.clamp(1, 5) as usize {
            if t.reask_first && step == 1 {
                b2 = Some(block_bytes(0, false, 6));
                received = 0;
            }
            let req = t.req(idx, step, None, b2.clone(), vec![]);
            let (e, out) = one_exchange(&mut handler, t, &req)?;
            reqs.push(req);
            entries.push(e);
            let Some(resp) = &out.response else { break };
            let Some(blk) = find_opt(resp, OPT_BLOCK2).and_then(|b| parse_block(b)) else { break };
            received += resp.payload.len();
            if !blk.more {
                break;
            }
            b2 = Some(block_bytes((received / blk.size()) as u32, false, blk.szx));
        }
    }
    Ok((reqs, entries))
}

fn interleavings(lens: &[usize], cur: &mut Vec<usize>, pos: &mut Vec<usize>, f: &mut dyn FnMut(&[usize]) -> Result<(), Fail>) -> Result<(), Fail> {
    let total: usize = lens.iter().sum();
    if cur.len() == total {
        return f(cur);
    }
    for i in 0..lens.len() {
        if pos[i] < lens[i] {
            pos[i] += 1;
            cur.push(i);
            interleavings(lens, cur, pos, f)?;
            cur.pop();
            pos[i] -= 1;
        }
    }
    Ok(())
}

pub fn check_set(_ctx: &Ctx, s: &ScriptSet, acc: &mut Acc) -> Result<(), Fail> {
    // the statement is about transfers that differ in endpoint, method or path
    for (i, a) in s.transfers.iter().enumerate() {
        for b in &s.transfers[i + 1..] {
            if a.endpoint == b.endpoint && a.method == b.method && a.path == b.path {
                acc.class("skipped-two-transfers-with-one-key");
                return Ok(());
            }
        }
    }
    let mut scripts = Vec::new();
    let mut solos = Vec::new();
    for (i, t) in s.transfers.iter().enumerate() {
        let (reqs, entries) = solo(s.budget, i, t)?;
        scripts.push(reqs);
        solos.push(entries);
    }
    let lens: Vec<usize> = scripts.iter().map(|r| r.len()).collect();
    let mut count = 0u64;
    let mut overlapping = 0u64;
    let n = lens.len();
    let r = interleavings(&lens, &mut Vec::new(), &mut vec![0; n], &mut |order| {
        count += 1;
        // sequential orders (each transfer finishes before the next starts) are the trivial ones
        let mut switches = 0;
        for w in order.windows(2) {
            if w[0] != w[1] {
                switches += 1;
            }
        }
        if switches >= n {
            overlapping += 1;
        }
        let mut handler: BlockHandler<u8> = new_handler(s.budget, HOUR);
        let mut pos = vec![0usize; n];
        for &ti in order {
            let t = &s.transfers[ti];
            let step = pos[ti];
            pos[ti] += 1;
            let (entry, _) = one_exchange(&mut handler, t, &scripts[ti][step])?;
            let want = &solos[ti][step];
            if &entry != want {
                let what = if entry.app_called != want.app_called {
                    format!("application consulted: {} (alone: {})", entry.app_called, want.app_called)
                } else if entry.app_saw != want.app_saw {
                    format!(
                        "application saw {} bytes (alone: {} bytes)",
                        entry.app_saw.as_ref().map(|b| b.len()).unwrap_or(0),
                        want.app_saw.as_ref().map(|b| b.len()).unwrap_or(0)
                    )
                } else {
                    format!(
                        "response {} (alone: {}); {} / {}",
                        entry.response.as_ref().map(|b| hex(b)).unwrap_or_else(|| "none".into()),
                        want.response.as_ref().map(|b| hex(b)).unwrap_or_else(|| "none".into()),
                        entry.note,
                        want.note
                    )
                };
                fail!(
                    "c12-not-isolated",
                    "transfers differing in {}: in schedule {order:?} transfer {ti} step {step} observed something else than when run alone: {what}",
                    s.differ_in
                );
            }
        }
        Ok(())
    });
    acc.evaluations += count.saturating_sub(1);
    r?;
    acc.class_n("interleavings", count);
    acc.class_n("interleavings-with-overlapping-lifetimes", overlapping);
    match s.differ_in.as_str() {
        "endpoint" => acc.class("sets:differ-in-endpoint"),
        "method" => acc.class("sets:differ-in-method"),
        "path" => acc.class("sets:differ-in-path"),
        "path-segmentation" => acc.class("sets:differ-in-path-segmentation"),
        "path-slash-moved" => acc.class("sets:differ-in-where-the-slash-is"),
        "endpoint-on-well-known-core" => acc.class("sets:two-endpoints-on-.well-known/core"),
        "path-prefix" => acc.class("sets:differ-in-path-prefix"),
        "path-leading-empty-segment" => acc.class("sets:differ-in-leading-empty-segment"),
        "path-long-segments" => acc.class("sets:differ-in-255-byte-segments"),
        "path-vs-query" => acc.class("sets:differ-in-path-with-query-repeating-the-segment"),
        _ => acc.class("sets:mixed"),
    }
    if s.transfers.iter().any(|t| t.upload) && s.transfers.iter().any(|t| !t.upload) {
        acc.class("sets:upload+download");
    }
    acc.nontrivial(fp(s));
    acc.sample("script-set", || json!({"set": s, "script_lengths": lens, "interleavings": count}));
    Ok(())
}

fn transfer(upload: bool) -> BoxedStrategy<Transfer> {
    (0u8..=2, 3u8..=5, any::<u8>(), any::<u8>(), 0u8..=8, any::<bool>(), any::<bool>())
        .prop_map(move |(szx, exchanges, remainder, seed, token_len, early, vary_token_len)| Transfer {
            vary_token_len,
            query: vec![],
            budget: 0,
            reask_first: false,
            body_override: None,
            upload,
            endpoint: 1,
            method: if upload { [2u8, 3, 5, 6, 7][(seed % 5) as usize] } else { [1u8, 5, 1, 1, 2][(seed % 5) as usize] },
            path: vec![b"a".to_vec(), b"b".to_vec()],
            szx,
            exchanges,
            remainder,
            seed,
            token_len,
            early,
        })
        .boxed()
}

/// Makes `b`'s key differ from `a`'s in exactly one component.
fn differ(a: &Transfer, b: &mut Transfer, how: u8) -> &'static str {
    b.endpoint = a.endpoint;
    b.path = a.path.clone();
    // same method family unless the difference is the method
    b.method = a.method;
    b.upload = a.upload;
    b.query = a.query.clone();
    match how % 8 {
        7 => {
            // two different segments of the maximal length (255 bytes)
            let mut s = vec![b'p'; 254];
            s.push(b'1');
            b.path = vec![s];
            "path-long-segments"
        }
        5 => {
            // one leading empty segment ("//a/b" vs "/a/b")
            b.path = vec![b"".to_vec(), b"a".to_vec(), b"b".to_vec()];
            "path-leading-empty-segment"
        }
        6 => {
            // a shorter path whose query repeats the other's last segment
            b.path = vec![b"a".to_vec()];
            b.query = vec![b"b".to_vec()];
            "path-vs-query"
        }
        0 => {
            b.endpoint = a.endpoint + 1;
            "endpoint"
        }
        1 => {
            // any other method code 1..=7 (GET/POST/PUT/DELETE/FETCH/PATCH/iPATCH)
            let shift = 1 + (how / 8) % 6;
            b.method = (a.method - 1 + shift) % 7 + 1;
            "method"
        }
        2 => {
            b.path = vec![b"a".to_vec(), b"c".to_vec()];
            "path"
        }
        3 => {
            b.path = vec![b"a/b".to_vec()];
            "path-segmentation"
        }
        _ => {
            b.path = vec![b"a".to_vec()];
            "path-prefix"
        }
    }
}

fn script_set(three: bool) -> BoxedStrategy<ScriptSet> {
    (
        proptest::collection::vec((any::<bool>(), any::<u8>()), if three { 3 } else { 2 }),
        any::<bool>(),
        0u8..48,
        0u8..48,
        60usize..200,
    )
        .prop_flat_map(move |(kinds, mixed_method, how1, how2, budget)| {
            let strategies: Vec<BoxedStrategy<Transfer>> = kinds.iter().map(|(u, _)| transfer(*u)).collect();
            (strategies, Just(mixed_method), Just(how1), Just(how2), Just(budget))
        })
        .prop_map(move |(mut ts, mixed_method, how1, how2, budget)| {
            if three {
                for t in ts.iter_mut() {
                    t.exchanges = 3;
                }
            }
            let a = ts[0].clone();
            let mut label = String::new();
            // an upload and a download on the same endpoint and path differ in
            // their method only
            if mixed_method && ts[1].upload != a.upload {
                let up = ts[1].upload;
                ts[1].endpoint = a.endpoint;
                ts[1].path = a.path.clone();
                ts[1].method = if up { 3 } else { 1 };
                if ts[1].method == a.method {
                    ts[1].method = if up { 2 } else { 5 };
                }
                label.push_str("method");
            } else {
                let (head, tail) = ts.split_at_mut(1);
                label.push_str(differ(&head[0], &mut tail[0], how1));
            }
            if how1 >= 40 && label != "method" {
                // two more pairs, each changing both transfers
                let a = ts[0].clone();
                ts[1].endpoint = a.endpoint;
                ts[1].method = a.method;
                ts[1].upload = a.upload;
                ts[1].query = a.query.clone();
                if how1 % 2 == 0 {
                    // the same text, the same number of segments, the slash moved
                    ts[0].path = vec![b"a/b".to_vec(), b"c".to_vec()];
                    ts[1].path = vec![b"a".to_vec(), b"b/c".to_vec()];
                    label = "path-slash-moved".to_string();
                } else {
                    // two endpoints fetching the discovery resource
                    ts[0].path = vec![b".well-known".to_vec(), b"core".to_vec()];
                    ts[0].query = vec![];
                    ts[1].path = ts[0].path.clone();
                    ts[1].query = vec![];
                    ts[1].endpoint = a.endpoint + 1;
                    if !a.upload {
                        ts[0].method = 1;
                        ts[1].method = 1;
                    }
                    label = "endpoint-on-well-known-core".to_string();
                }
            }
            if ts.len() == 3 {
                // the third differs from the first in one component and from
                // the second in one component: vary the same component again
                let first = ts[0].clone();
                let how = if label == "endpoint" { 0 } else if label == "method" { 1 + 8 * (how2 / 8) } else { (how2 % 8).max(2) };
                let l = differ(&first, &mut ts[2], how);
                match l {
                    "endpoint" => ts[2].endpoint = first.endpoint + 2,
                    "method" => {
                        // a third method different from the other two
                        let mut m = ts[2].method;
                        while m == first.method || m == ts[1].method {
                            m = m % 7 + 1;
                        }
                        ts[2].method = m;
                    }
                    _ => {
                        if ts[2].path == ts[1].path {
                            ts[2].path = vec![b"a".to_vec(), b"b".to_vec(), b"".to_vec()];
                        }
                    }
                }
                if l != label {
                    label = format!("{label}+{l}");
                }
            }
            if label.contains("path-long-segments") {
                // the first transfer gets a maximal-length segment of its own
                let mut s = vec![b'p'; 254];
                s.push(b'0');
                ts[0].path = vec![s];
            }
            for (i, t) in ts.iter_mut().enumerate() {
                t.budget = if label.contains("long") { budget + 300 } else { budget };
                t.reask_first = !t.upload && (how2 as usize + i) % 4 == 0;
            }
            if budget % 5 == 0 && !ts[0].upload && !ts[1].upload {
                // two downloads of one length, token length and option set that
                // ask for different block sizes in their first request
                let szx0 = ts[0].szx.min(3);
                let tl = ts[0].token_len;
                for (i, t) in ts.iter_mut().enumerate().take(2) {
                    t.body_override = Some(200);
                    t.early = true;
                    t.vary_token_len = false;
                    t.token_len = tl;
                    t.szx = szx0 + 2 * i as u8;
                    t.reask_first = false;
                }
            }
            // uploads and downloads may use any method code
            ScriptSet { budget: if label.contains("long") { budget + 300 } else { budget }, transfers: ts, differ_in: label }
        })
        .boxed()
}

pub fn run(ctx: &Ctx, rep: &mut Report) {
    rep.assume("the handler is driven through &mut self, so the harness owns the schedule: an interleaving is an order of whole exchanges (request in, response out)");
    rep.assume("each transfer's requests are fixed by running it alone first with an adaptive client; the application's reply is a function of the transfer and of the request it is shown");
    let n = ctx.cases(600, 20_000);
    run_prop(
        ctx,
        rep,
        "two-transfers-all-interleavings",
        "script sets of 2 transfers of 3..=5 exchanges each (Block1 uploads and Block2 downloads, keys differing in exactly one of endpoint / method / path incl. segmentation [a,b] vs [a/b], prefix [a] vs [a,b], a leading empty segment, and [a,b] vs [a]?b; token length constant or varying from request to request); ALL interleavings of each set are enumerated on fresh handlers and every exchange is compared with the transfer's solo transcript; each interleaving counts as one evaluation; distinct = distinct script sets",
        n,
        || script_set(false),
        check_set,
    );
    let n = ctx.cases(160, 6_000);
    run_prop(
        ctx,
        rep,
        "three-transfers-all-interleavings",
        "script sets of 3 transfers of 3 exchanges each (1680 interleavings per set), same oracle",
        n,
        || script_set(true),
        check_set,
    );
    if !ctx.quick() {
        // 3 x up to 5 exchanges: up to 756756 interleavings per set
        let n = ctx.cases(16, 16);
        run_prop(
            ctx,
            rep,
            "three-long-transfers-all-interleavings",
            "script sets of 3 transfers of 3..=5 exchanges each (up to 756756 interleavings per set), same oracle",
            n,
            || {
                script_set(true).prop_flat_map(|s| {
                    (Just(s), proptest::collection::vec(3u8..=5, 3)).prop_map(|(mut s, ex)| {
                        for (t, e) in s.transfers.iter_mut().zip(ex) {
                            t.exchanges = e;
                        }
                        s
                    })
                })
            },
            check_set,
        );
    }
}
