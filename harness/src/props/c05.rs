//! C05 — protocol numbers match the IANA/RFC registries and map one-to-one.

use std::convert::TryFrom;

use coap_lite::{
    CoapOption, CoapRequest, CoapResponse, ContentFormat, Header,
    MessageClass, MessageType, ObserveOption, Packet, RequestType,
    ResponseType,
};
use serde::{Deserialize, Serialize};
use serde_json::json;

use crate::engine::*;
use crate::refmodel::registry as reg;
use crate::{ensure, fail};

#[derive(Clone, Debug, Serialize, Deserialize)]
pub struct Num {
    pub space: String,
    pub n: u32,
}

fn expected_class(b: u8) -> MessageClass {
    if b == 0 {
        return MessageClass::Empty;
    }
    for (v, n, _) in reg::methods() {
        if n == b {
            return MessageClass::Request(v);
        }
    }
    for (v, n, _) in reg::statuses() {
        if n == b {
            return MessageClass::Response(v);
        }
    }
    MessageClass::Reserved(b)
}

fn near_named(n: u32, named: &[u32]) -> bool {
    named.iter().any(|&k| k.abs_diff(n) <= 1)
}

pub fn check(_ctx: &Ctx, c: &Num, acc: &mut Acc) -> Result<(), Fail> {
    let n = c.n;
    match c.space.as_str() {
        "option" => {
            let n16 = n as u16;
            let table = reg::options();
            let named: Vec<u32> = table.iter().map(|t| t.1 as u32).collect();
            let got = CoapOption::from(n16);
            let want = table
                .iter()
                .find(|t| t.1 == n16)
                .map(|t| t.0)
                .unwrap_or(CoapOption::Unknown(n16));
            ensure!(
                got == want,
                "c05-option-number-to-name",
                "option number {n16} maps to {got:?}, registry says {want:?}"
            );
            let back = u16::from(got);
            ensure!(
                back == n16,
                "c05-option-roundtrip",
                "option number {n16} -> {got:?} -> {back}"
            );
            ensure!(
                u16::from(CoapOption::Unknown(n16)) == n16,
                "c05-option-unknown",
                "Unknown({n16}) converts to {}",
                u16::from(CoapOption::Unknown(n16))
            );
            if let Some(t) = table.iter().find(|t| t.1 == n16) {
                acc.class("named-option");
                // on the wire: the named option is encoded under its registry number
                let mut p = Packet::new();
                p.add_option(t.0, vec![0x5A]);
                match catch(|| p.to_bytes()) {
                    Ok(Ok(bytes)) => {
                        let (v, _) = crate::refmodel::wire::parse(&bytes);
                        let ok = matches!(&v, crate::refmodel::wire::Verdict::MustAccept(m) if m.options == vec![(t.1, vec![0x5A])]);
                        ensure!(
                            ok,
                            "c05-option-on-the-wire",
                            "{:?} ({}) is encoded as {}, not as option number {}",
                            t.0,
                            t.2,
                            crate::pkt::hex(&bytes),
                            t.1
                        );
                    }
                    other => fail!("c05-option-on-the-wire", "encoding a message with {:?} failed: {other:?}", t.0),
                }
                ensure!(
                    u16::from(t.0) == t.1,
                    "c05-option-name-to-number",
                    "{:?} ({}) converts to {}, registry number is {}",
                    t.0,
                    t.2,
                    u16::from(t.0),
                    t.1
                );
                ensure!(
                    CoapOption::from(u16::from(t.0)) == t.0,
                    "c05-option-roundtrip",
                    "{:?} -> number -> name is not the identity",
                    t.0
                );
            }
            if near_named(n, &named) {
                acc.nontrivial_enum();
                acc.sample("option", || json!({"number": n, "name": format!("{got:?}")}));
            }
        }
        "content-format" => {
            let table = reg::content_formats();
            let named: Vec<u32> = table.iter().map(|t| t.1 as u32).collect();
            let got = ContentFormat::try_from(n as usize);
            let want = table.iter().find(|t| t.1 as u32 == n).map(|t| t.0);
            match (&got, &want) {
                (Ok(g), Some(w)) => {
                    acc.class("named-content-format");
                    ensure!(
                        g == w,
                        "c05-content-format-number-to-name",
                        "content-format {n} maps to {g:?}, registry says {w:?}"
                    );
                    ensure!(
                        usize::from(*g) == n as usize,
                        "c05-content-format-roundtrip",
                        "content-format {n} -> {g:?} -> {}",
                        usize::from(*g)
                    );
                    ensure!(
                        usize::from(*w) == n as usize,
                        "c05-content-format-name-to-number",
                        "{w:?} converts to {}, registry id is {n}",
                        usize::from(*w)
                    );
                    // name -> number -> name through the message API, whatever
                    // Content-Format values the message held before
                    for prior in 0..4u8 {
                        let mut q = Packet::new();
                        let other = crate::props::c01::min_uint(if n == 50 { 60 } else { 50 });
                        let same_width = crate::props::c01::min_uint(if n < 256 { (n as u64 + 1) % 256 } else { n as u64 ^ 1 });
                        match prior {
                            0 => {}
                            1 => q.add_option(CoapOption::ContentFormat, other.clone()),
                            2 => {
                                q.add_option(CoapOption::ContentFormat, other.clone());
                                q.add_option(CoapOption::ContentFormat, same_width.clone());
                            }
                            _ => {
                                q.add_option(CoapOption::ContentFormat, same_width.clone());
                                q.add_option(CoapOption::ContentFormat, other.clone());
                                q.add_option(CoapOption::ContentFormat, same_width.clone());
                            }
                        }
                        q.set_content_format(*w);
                        let back = q.get_content_format();
                        ensure!(
                            back == Some(*w),
                            "c05-content-format-getter",
                            "set_content_format({w:?}) on a message that held {prior} Content-Format value(s): get_content_format() = {back:?}"
                        );
                    }
                    // on the wire: Content-Format carries the registry id as a uint
                    let mut p = Packet::new();
                    p.set_content_format(*w);
                    match catch(|| p.to_bytes()) {
                        Ok(Ok(bytes)) => {
                            let (v, _) = crate::refmodel::wire::parse(&bytes);
                            let want = crate::props::c01::min_uint(n as u64);
                            let ok = matches!(&v, crate::refmodel::wire::Verdict::MustAccept(m) if m.options == vec![(12u16, want.clone())]);
                            ensure!(
                                ok,
                                "c05-content-format-on-the-wire",
                                "{w:?} (id {n}) is sent as {}, expected option 12 with value {}",
                                crate::pkt::hex(&bytes),
                                crate::pkt::hex(&want)
                            );
                            let back = Packet::from_bytes(&bytes).ok().and_then(|q| q.get_content_format());
                            ensure!(
                                back == Some(*w),
                                "c05-content-format-on-the-wire",
                                "{w:?} (id {n}) reads back from its own encoding as {back:?}"
                            );
                        }
                        other => fail!("c05-content-format-on-the-wire", "encoding failed: {other:?}"),
                    }
                }
                (Err(_), None) => {}
                (Ok(g), None) => fail!(
                    "c05-content-format-alias",
                    "unassigned (or unnamed) content-format id {n} is reported as {g:?}"
                ),
                (Err(_), Some(w)) => fail!(
                    "c05-content-format-missing",
                    "content-format id {n} ({w:?}) is reported as invalid"
                ),
            }
            // the number -> name direction as Packet::get_content_format reads it,
            // whatever else the message carries
            if n <= 65535 {
                for ctx_i in 0..6u8 {
                    let mut p = Packet::new();
                    p.header.code = MessageClass::from([0x00u8, 0x01, 0x45, 0x84, 0x02, 0x45][ctx_i as usize]);
                    if ctx_i >= 2 {
                        p.set_observe_value(7);
                    }
                    if ctx_i == 4 || ctx_i == 5 {
                        p.add_option(CoapOption::UriPath, b"x".to_vec());
                        p.payload = vec![1];
                    }
                    p.add_option(CoapOption::ContentFormat, crate::props::c01::min_uint(n as u64));
                    let r = match catch(|| p.get_content_format()) {
                        Ok(r) => r,
                        Err(msg) => fail!("c05-content-format-getter", "get_content_format panicked on id {n}: {msg}"),
                    };
                    ensure!(
                        r == want,
                        "c05-content-format-getter",
                        "Content-Format {n} in a message with code {:?}{}: get_content_format() = {r:?}, registry says {want:?}",
                        p.header.code,
                        if ctx_i >= 2 { " and an Observe option" } else { "" }
                    );
                }
            }
            if near_named(n, &named) {
                acc.nontrivial_enum();
                acc.sample("content-format", || json!({"id": n, "result": format!("{got:?}")}));
            }
        }
        "code" => {
            let b = n as u8;
            let got = MessageClass::from(b);
            let want = expected_class(b);
            ensure!(
                got == want,
                "c05-code-number-to-name",
                "code byte {b:#04x} maps to {got:?}, registry says {want:?}"
            );
            ensure!(
                u8::from(got) == b,
                "c05-code-roundtrip",
                "code byte {b:#04x} -> {got:?} -> {:#04x}",
                u8::from(got)
            );
            ensure!(
                u8::from(MessageClass::Reserved(b)) == b,
                "c05-code-reserved",
                "Reserved({b:#04x}) converts to {:#04x}",
                u8::from(MessageClass::Reserved(b))
            );
            let text = format!("{}.{:02}", b >> 5, b & 31);
            ensure!(
                got.to_string() == text,
                "c05-code-display",
                "code byte {b:#04x} prints as {:?}, expected {text:?}",
                got.to_string()
            );
            let mut h = Header::new();
            h.code = MessageClass::Empty;
            if let Err(msg) = catch(|| h.set_code(&text)) {
                fail!("c05-set-code-panic", "set_code({text:?}) panicked: {msg}");
            }
            ensure!(
                u8::from(h.code) == b && h.code == want,
                "c05-set-code",
                "set_code({text:?}) stored {:?} ({:#04x}), expected {want:?} ({b:#04x})",
                h.code,
                u8::from(h.code)
            );
            ensure!(
                h.get_code() == text,
                "c05-get-code",
                "get_code after set_code({text:?}) returned {:?}",
                h.get_code()
            );
            // set_code from every previous code
            for prev in 0..=255u8 {
                let mut h = Header::new();
                h.code = MessageClass::from(prev);
                if let Err(msg) = catch(|| h.set_code(&text)) {
                    fail!("c05-set-code-panic", "set_code({text:?}) on a header holding {prev:#04x} panicked: {msg}");
                }
                ensure!(
                    u8::from(h.code) == b && h.get_code() == text,
                    "c05-set-code",
                    "set_code({text:?}) on a header holding code {prev:#04x} stored {:#04x} ({})",
                    u8::from(h.code),
                    h.get_code()
                );
            }
            // encoded header byte
            let mut p = Packet::new();
            p.header.code = got;
            match catch(|| p.to_bytes()) {
                Ok(Ok(bytes)) => ensure!(
                    bytes.len() >= 4 && bytes[1] == b,
                    "c05-code-encoded",
                    "code {got:?} encodes as {:#04x}, expected {b:#04x}",
                    bytes[1]
                ),
                other => fail!("c05-code-encoded", "encoding a bare header failed: {other:?}"),
            }
            match catch(|| Packet::from_bytes(&[0x40, b, 0, 0])) {
                Ok(Ok(q)) => ensure!(
                    q.header.code == want,
                    "c05-code-decoded",
                    "code byte {b:#04x} decodes as {:?}, expected {want:?}",
                    q.header.code
                ),
                other => fail!("c05-code-decoded", "decoding a bare header failed: {:?}", other.map(|r| r.map(|_| ()))),
            }
            if !matches!(want, MessageClass::Reserved(_)) {
                acc.class("named-code");
            }
            let named: Vec<u32> = reg::methods()
                .iter()
                .map(|t| t.1 as u32)
                .chain(reg::statuses().iter().map(|t| t.1 as u32))
                .chain([0])
                .collect();
            if near_named(n, &named) {
                acc.nontrivial_enum();
                acc.sample("code", || json!({"byte": b, "class": format!("{got:?}"), "text": text}));
            }
        }
        "named-code" => {
            // name -> number for every named method / status, and is_error
            let methods = reg::methods();
            let statuses = reg::statuses();
            let i = n as usize;
            if i < methods.len() {
                let (v, num, name) = methods[i];
                ensure!(
                    u8::from(MessageClass::Request(v)) == num,
                    "c05-method-name-to-number",
                    "{v:?} ({name}) converts to {:#04x}, registry code is {num:#04x}",
                    u8::from(MessageClass::Request(v))
                );
                ensure!(
                    MessageClass::from(num) == MessageClass::Request(v),
                    "c05-code-roundtrip",
                    "{v:?} -> {num:#04x} -> {:?}",
                    MessageClass::from(num)
                );
            } else if i < methods.len() + statuses.len() {
                let (v, num, name) = statuses[i - methods.len()];
                ensure!(
                    u8::from(MessageClass::Response(v)) == num,
                    "c05-status-name-to-number",
                    "{v:?} ({name}) converts to {:#04x}, registry code is {num:#04x}",
                    u8::from(MessageClass::Response(v))
                );
                ensure!(
                    MessageClass::from(num) == MessageClass::Response(v),
                    "c05-code-roundtrip",
                    "{v:?} -> {num:#04x} -> {:?}",
                    MessageClass::from(num)
                );
                ensure!(
                    v.is_error() == (num >= 0x80),
                    "c05-is-error",
                    "{v:?} ({name}, byte {num:#04x}): is_error() = {}",
                    v.is_error()
                );
            } else {
                // the two non-registry placeholders
                ensure!(
                    u8::from(MessageClass::Request(RequestType::UnKnown)) == 0xFF
                        && u8::from(MessageClass::Response(ResponseType::UnKnown)) == 0xFF,
                    "c05-unknown-placeholder",
                    "UnKnown placeholders do not convert to 0xFF"
                );
                ensure!(
                    ResponseType::UnKnown.is_error(),
                    "c05-is-error",
                    "ResponseType::UnKnown (byte 0xFF >= 0x80) is not reported as an error"
                );
            }
            acc.nontrivial_enum();
            acc.sample("named-code", || json!({"index": n}));
        }
        "code-getter" => {
            // the second number -> name tables behind the request / response
            // API (CoapRequest::get_method, CoapResponse::get_status)
            let b = n as u8;
            let mut req: CoapRequest<u8> = CoapRequest::new();
            req.message.header.code = MessageClass::from(b);
            let want_m = reg::methods()
                .into_iter()
                .find(|t| t.1 == b)
                .map(|t| t.0)
                .unwrap_or(RequestType::UnKnown);
            ensure!(
                *req.get_method() == want_m,
                "c05-get-method",
                "code byte {b:#04x}: CoapRequest::get_method() = {:?}, registry says {want_m:?}",
                req.get_method()
            );
            let want_s = reg::statuses()
                .into_iter()
                .find(|t| t.1 == b)
                .map(|t| t.0)
                .unwrap_or(ResponseType::UnKnown);
            for parsed in [false, true] {
                let message = if parsed {
                    match catch(|| Packet::from_bytes(&[0x60, b, 0x12, 0x34])) {
                        Ok(Ok(p)) => p,
                        other => fail!("c05-header-decode-panic", "four-byte message with code {b:#04x} did not parse: {:?}", other.map(|r| r.map(|_| ()))),
                    }
                } else {
                    req.message.clone()
                };
                let resp = CoapResponse { message };
                let got = *resp.get_status();
                ensure!(
                    got == want_s,
                    "c05-get-status",
                    "code byte {b:#04x} ({}.{:02}){}: CoapResponse::get_status() = {got:?}, registry says {want_s:?}",
                    b >> 5,
                    b & 31,
                    if parsed { " from the wire" } else { "" }
                );
                if want_s != ResponseType::UnKnown {
                    // number -> name -> number
                    ensure!(
                        u8::from(MessageClass::Response(got)) == b,
                        "c05-get-status",
                        "code byte {b:#04x} -> {got:?} -> {:#04x}",
                        u8::from(MessageClass::Response(got))
                    );
                }
            }
            let named: Vec<u32> = reg::methods()
                .iter()
                .map(|m| m.1 as u32)
                .chain(reg::statuses().iter().map(|s| s.1 as u32))
                .collect();
            if near_named(n, &named) {
                acc.nontrivial_enum();
                acc.sample("code-getter", || json!({"byte": b, "method": format!("{want_m:?}"), "status": format!("{want_s:?}")}));
            }
        }
        "header-byte" => {
            let b = n as u8;
            let ver = b >> 6;
            let t = (b >> 4) & 3;
            let tkl = b & 15;
            let types = reg::types();
            let want_t = types.iter().find(|x| x.1 == t).unwrap().0;
            // decode direction
            let mut dg = vec![b, 0x01, 0x12, 0x34];
            dg.extend(std::iter::repeat(0xAA).take(tkl as usize));
            match catch(|| Packet::from_bytes(&dg)) {
                Err(msg) => fail!("c05-header-decode-panic", "from_bytes panicked on header byte {b:#04x}: {msg}"),
                Ok(Ok(p)) => {
                    ensure!(tkl <= 8, "c05-header-tkl", "header byte {b:#04x} (TKL {tkl}) was accepted");
                    ensure!(
                        p.header.get_version() == ver
                            && p.header.get_type() == want_t
                            && p.header.get_token_length() == tkl,
                        "c05-header-decode",
                        "header byte {b:#04x} decodes as version {} type {:?} tkl {}, expected {ver} {want_t:?} {tkl}",
                        p.header.get_version(),
                        p.header.get_type(),
                        p.header.get_token_length()
                    );
                }
                Ok(Err(_)) => ensure!(tkl > 8, "c05-header-decode", "header byte {b:#04x} (TKL {tkl}) was rejected"),
            }
            // setters rebuild the byte, in every order
            let orders: [[u8; 3]; 6] = [[0, 1, 2], [0, 2, 1], [1, 0, 2], [1, 2, 0], [2, 0, 1], [2, 1, 0]];
            for start in [0x00u8, 0xFF, 0x5A] {
                for o in orders {
                    let mut h = Header::new();
                    // start from an arbitrary previous state
                    h.set_version(start >> 6);
                    h.set_type(types[((start >> 4) & 3) as usize].0);
                    h.set_token_length(start & 15);
                    for step in o {
                        match step {
                            0 => h.set_version(ver),
                            1 => h.set_type(want_t),
                            _ => h.set_token_length(tkl),
                        }
                    }
                    ensure!(
                        h.get_version() == ver && h.get_type() == want_t && h.get_token_length() == tkl,
                        "c05-header-setters",
                        "setters (order {o:?}, from {start:#04x}) for byte {b:#04x} read back as {} {:?} {}",
                        h.get_version(),
                        h.get_type(),
                        h.get_token_length()
                    );
                    let mut buf = Vec::with_capacity(4);
                    h.to_raw().serialize_into(&mut buf).map_err(|e| {
                        Fail::new("c05-header-serialize", format!("serialize_into failed: {e:?}"))
                    })?;
                    ensure!(
                        buf[0] == b,
                        "c05-header-encode",
                        "setters (order {o:?}, from {start:#04x}) for version {ver} type {want_t:?} tkl {tkl} encode as {:#04x}, expected {b:#04x}",
                        buf[0]
                    );
                }
            }
            // every code byte behind this first byte: the parsed class is the
            // table's, whatever type / version / token length come with it
            if tkl <= 8 {
                for code in 0..=255u8 {
                    let mut dg = vec![b, code, 0x12, 0x34];
                    dg.extend(std::iter::repeat(0xAA).take(tkl as usize));
                    match catch(|| Packet::from_bytes(&dg)) {
                        Ok(Ok(p)) => {
                            ensure!(
                                p.header.code == expected_class(code) && p.header.get_type() == want_t,
                                "c05-header-decode",
                                "first byte {b:#04x} with code byte {code:#04x} parses as code {:?} type {:?}, expected {:?} {want_t:?}",
                                p.header.code,
                                p.header.get_type(),
                                expected_class(code)
                            );
                            match catch(|| p.to_bytes()) {
                                Ok(Ok(out)) => ensure!(
                                    out == dg || (code == 0 && out.len() <= dg.len()),
                                    "c05-header-encode",
                                    "first byte {b:#04x} with code byte {code:#04x} re-encodes as {}",
                                    crate::pkt::hex(&out)
                                ),
                                other => fail!("c05-header-encode", "re-encoding failed: {other:?}"),
                            }
                        }
                        // a stricter parser may refuse version != 1 or content in a 0.00 message
                        Ok(Err(_)) => ensure!(ver != 1, "c05-header-decode", "well-formed header {b:#04x} {code:#04x} rejected"),
                        Err(msg) => fail!("c05-header-decode-panic", "from_bytes panicked on {b:#04x} {code:#04x}: {msg}"),
                    }
                }
            }
            // set_type from every previous state of type, code and token length
            for prev in 0..4usize {
                for code in [0x00u8, 0x01, 0x45, 0xFF] {
                    for ptkl in [0u8, 3, 8] {
                        let mut h = Header::new();
                        h.code = MessageClass::from(code);
                        h.set_token_length(ptkl);
                        h.set_type(types[prev].0);
                        h.set_type(want_t);
                        ensure!(
                            h.get_type() == want_t && h.get_token_length() == ptkl && h.code == MessageClass::from(code),
                            "c05-header-setters",
                            "set_type({want_t:?}) on a header with type {:?}, code {code:#04x}, token length {ptkl} reads back as type {:?} tkl {} code {:?}",
                            types[prev].0,
                            h.get_type(),
                            h.get_token_length(),
                            h.code
                        );
                    }
                }
            }
            acc.nontrivial_enum();
            acc.sample("header-byte", || json!({"byte": b}));
        }
        "type" => {
            let types = reg::types();
            let (v, num, _) = types[n as usize];
            let mut h = Header::new();
            h.set_type(v);
            let mut buf = Vec::with_capacity(4);
            let _ = h.to_raw().serialize_into(&mut buf);
            ensure!(
                (buf[0] >> 4) & 3 == num && h.get_type() == v,
                "c05-type-number",
                "{v:?} encodes as type {}, registry value {num}",
                (buf[0] >> 4) & 3
            );
            let _ = MessageType::Confirmable;
            acc.nontrivial_enum();
        }
        "observe" => {
            let got = ObserveOption::try_from(n as usize);
            let want = reg::observe_actions().into_iter().find(|t| t.1 == n).map(|t| t.0);
            match (&got, &want) {
                (Ok(g), Some(w)) => {
                    ensure!(g == w, "c05-observe", "observe value {n} maps to {g:?}, RFC 7641 says {w:?}");
                    ensure!(usize::from(*w) == n as usize, "c05-observe", "{w:?} converts to {}", usize::from(*w));
                    acc.class("named-observe");
                }
                (Err(_), None) => {}
                _ => fail!("c05-observe", "observe value {n}: got {got:?}, expected {want:?}"),
            }
            // the same number -> name table as the request API reads it
            // (CoapRequest::get_observe_flag), from the minimal encoding and
            // from a three-byte one with leading zeros
            for pad in [false, true] {
                let mut bytes = crate::props::c01::min_uint(n as u64);
                if pad {
                    while bytes.len() < 3 {
                        bytes.insert(0, 0);
                    }
                }
                let mut req: CoapRequest<u8> = CoapRequest::new();
                req.message.add_option(CoapOption::Observe, bytes.clone());
                let flag = match catch(|| req.get_observe_flag()) {
                    Ok(f) => f,
                    Err(msg) => fail!("c05-observe", "get_observe_flag panicked on Observe value {n}: {msg}"),
                };
                match (&flag, &want) {
                    (Some(Ok(g)), Some(w)) => ensure!(g == w, "c05-observe-request-api", "Observe {n} ({bytes:02x?}) reads as {g:?} through get_observe_flag, RFC 7641 says {w:?}"),
                    (Some(Err(_)), None) => {}
                    _ => fail!("c05-observe-request-api", "Observe {n} ({bytes:02x?}): get_observe_flag() = {flag:?}, expected {want:?} (unassigned values are invalid)"),
                }
            }
            if n <= 3 || n % 256 <= 1 {
                acc.nontrivial_enum();
                acc.sample("observe", || json!({"value": n, "result": format!("{got:?}")}));
            }
        }
        other => fail!("harness", "unknown number space {other}"),
    }
    Ok(())
}

pub fn run(ctx: &Ctx, rep: &mut Report) {
    rep.assume("registry tables in harness/src/refmodel/registry.rs (transcribed from IANA CoRE Parameters and the RFCs) are part of the trusted base");
    rep.assume("RequestType::UnKnown / ResponseType::UnKnown are placeholders, not registry names; only their byte (0xFF) is checked");
    let spaces: Vec<(&str, u32)> = vec![
        ("option", 65536),
        ("content-format", 65536 + 8),
        ("code", 256),
        ("named-code", (reg::methods().len() + reg::statuses().len() + 1) as u32),
        ("code-getter", 256),
        ("header-byte", 256),
        ("type", 4),
        ("observe", 65536),
    ];
    for (space, count) in spaces {
        let nchunks = if count > 1000 { 32 } else { 1 };
        let per = count.div_ceil(nchunks);
        run_enum_chunks(
            ctx,
            rep,
            &format!("all-{space}-numbers"),
            &format!("every value of the {space} number space ({count} values; content-format ids 65536..65543 stand for ids beyond u16); non-trivial = a named value or an unassigned neighbour of one"),
            true,
            nchunks as usize,
            |c| {
                let lo = c as u32 * per;
                let hi = ((c as u32 + 1) * per).min(count);
                (lo..hi).map(move |n| Num {
                    space: space.to_string(),
                    n: if space == "content-format" && n >= 65536 {
                        [65536, 65537, 70000, 1 << 20, 1 << 24, u32::MAX - 1, u32::MAX, 100000][(n - 65536) as usize]
                    } else {
                        n
                    },
                })
            },
            check,
        );
    }
}
