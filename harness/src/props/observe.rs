//! C14 — observe registry: one observer per endpoint per resource.
//! C15 — observe accounting: sequence +1, eviction exactly past the limit.
//!
//! One history interpreter next to a reference model; divergences are
//! attributed to C14 or C15 by where they appear.

use std::collections::BTreeMap;

use coap_lite::{create_notification, CoapRequest, Packet, Subject};
use proptest::prelude::*;
use serde::{Deserialize, Serialize};
use serde_json::json;

use crate::engine::*;
use crate::pkt::*;
use crate::props::c01::min_uint;
use crate::refmodel::wire::Msg;
use crate::{ensure, fail};

#[derive(Clone, Copy, PartialEq, Eq)]
pub enum Which {
    C14,
    C15,
}

#[derive(Clone, Copy, Debug, PartialEq, Eq, Hash, Serialize, Deserialize)]
pub enum Op {
    Register { ep: u8, token: u8, path: u8 },
    Deregister { ep: u8, token: u8, path: u8 },
    Changed { path: u8, mid: u16, con: bool },
    Ack { ep: u8, mid: u16 },
}

#[derive(Clone, Debug, PartialEq, Eq, Hash, Serialize, Deserialize)]
pub struct History {
    pub limit: u8,
    pub ops: Vec<Op>,
    /// names used by this history (index -> literal)
    pub wide: bool,
}

/// (argument given to set_path, resource key the registry must use)
pub const SMALL_PATHS: [(&str, &str); 3] = [("a", "a"), ("b/c", "b/c"), ("x", "x")];
/// Segments at and beyond 255 bytes (the RFC 7252 bound for a Uri-Path value,
/// which the crate does not enforce): the registry keys resources by the whole
/// path string, so these are three different resources.
const SEG255: &str = "sssssssssssssssssssssssssssssssssssssssssssssssssssssssssssssssssssssssssssssssssssssssssssssssssssssssssssssssssssssssssssssssssssssssssssssssssssssssssssssssssssssssssssssssssssssssssssssssssssssssssssssssssssssssssssssssssssssssssssssssssssssssssssssss";
const SEG256X: &str = "sssssssssssssssssssssssssssssssssssssssssssssssssssssssssssssssssssssssssssssssssssssssssssssssssssssssssssssssssssssssssssssssssssssssssssssssssssssssssssssssssssssssssssssssssssssssssssssssssssssssssssssssssssssssssssssssssssssssssssssssssssssssssssssssx";
const SEG256Y: &str = "sssssssssssssssssssssssssssssssssssssssssssssssssssssssssssssssssssssssssssssssssssssssssssssssssssssssssssssssssssssssssssssssssssssssssssssssssssssssssssssssssssssssssssssssssssssssssssssssssssssssssssssssssssssssssssssssssssssssssssssssssssssssssssssssy";
pub const WIDE_PATHS: [(&str, &str); 10] = [
    (SEG255, SEG255),
    (SEG256X, SEG256X),
    (SEG256Y, SEG256Y),
    ("a", "a"),
    ("b/c", "b/c"),
    ("", ""),
    ("é/ü", "é/ü"),
    ("a/b/c//d", "a/b/c//d"),
    // set_path strips one leading slash: the segments are ["", "a"], so the
    // resource is "/a", distinct from "a"
    ("//a", "/a"),
    ("a/", "a/"),
];
/// Tokens of every length 0..=8, among them pairs that differ in one byte
/// only, in the first byte by the token length, and prefixes of one another.
pub const TOKENS: [&[u8]; 18] = [
    &[0x0A],
    &[0x0B, 0x0C],
    &[],
    &[1, 2, 3, 4, 5, 6, 7, 8],
    &[0],
    &[0, 0],
    &[0x0A, 0],
    &[0x00, 0x11, 0x22, 0x33, 0x44, 0x55, 0x66, 0x77],
    &[0x08, 0x11, 0x22, 0x33, 0x44, 0x55, 0x66, 0x77],
    &[0x00, 0x11, 0x22, 0x33, 0x44, 0x55, 0x66, 0x76],
    &[1, 2, 3, 4, 5, 6, 7],
    &[1, 2, 3],
    &[3, 2, 1],
    &[0xFF, 0xFF, 0xFF, 0xFF],
    // eight-byte tokens that are a short token behind zeros and a "length
    // marker" byte (packed-integer comparisons lose the marker at 8 bytes)
    &[0, 0, 0, 0, 0, 0, 1, 0x0A],
    &[0, 0, 0, 0, 0, 1, 0x0B, 0x0C],
    &[0, 0, 0, 0, 0, 0, 0, 0x0A],
    &[0, 0, 0, 0, 0, 0, 0, 1],
];

fn ep_name(i: u8) -> String {
    format!("ep{i}")
}

fn paths(wide: bool) -> &'static [(&'static str, &'static str)] {
    if wide {
        &WIDE_PATHS
    } else {
        &SMALL_PATHS
    }
}

fn request(ep: u8, token: u8, path: &str, mid: u16) -> CoapRequest<String> {
    let mut r: CoapRequest<String> = CoapRequest::new();
    r.source = Some(ep_name(ep));
    r.set_path(path);
    r.message.set_token(TOKENS[token as usize % TOKENS.len()].to_vec());
    r.message.header.message_id = mid;
    r
}

#[derive(Clone, Debug, PartialEq)]
struct MObs {
    ep: u8,
    token: u8,
    count: u32,
    pending: Option<u16>,
}

#[derive(Clone, Debug, Default)]
struct MRes {
    observers: Vec<MObs>,
    sequence: u32,
}

#[derive(Default)]
struct Model {
    resources: BTreeMap<u8, MRes>,
}

/// What happened in a history (for classification).
#[derive(Default)]
struct Facts {
    evictions: u32,
    reregistrations: u32,
    deregistrations_hit: u32,
    ack_between_cons: bool,
    max_live_endpoints: usize,
    max_live_paths: usize,
}

impl Model {
    fn apply(&mut self, op: &Op, limit: u8, facts: &mut Facts) {
        match *op {
            Op::Register { ep, token, path } => {
                let r = self.resources.entry(path).or_default();
                if let Some(o) = r.observers.iter_mut().find(|o| o.ep == ep) {
                    *o = MObs { ep, token, count: 0, pending: None };
                    facts.reregistrations += 1;
                } else {
                    r.observers.push(MObs { ep, token, count: 0, pending: None });
                }
            }
            Op::Deregister { ep, token, path } => {
                if let Some(r) = self.resources.get_mut(&path) {
                    if let Some(pos) = r.observers.iter().position(|o| o.ep == ep && o.token == token) {
                        r.observers.remove(pos);
                        facts.deregistrations_hit += 1;
                    }
                }
            }
            Op::Changed { path, mid, con } => {
                if let Some(r) = self.resources.get_mut(&path) {
                    r.sequence = r.sequence.wrapping_add(1);
                    for o in r.observers.iter_mut() {
                        o.pending = Some(mid);
                        if con {
                            o.count += 1;
                        }
                    }
                    let before = r.observers.len();
                    r.observers.retain(|o| o.count <= limit as u32);
                    facts.evictions += (before - r.observers.len()) as u32;
                }
            }
            Op::Ack { ep, mid } => {
                for r in self.resources.values_mut() {
                    if let Some(o) = r.observers.iter_mut().find(|o| o.ep == ep && o.pending == Some(mid)) {
                        if o.count > 0 {
                            facts.ack_between_cons = true;
                        }
                        o.count = 0;
                        o.pending = None;
                    }
                }
            }
        }
        let live_paths = self.resources.values().filter(|r| !r.observers.is_empty()).count();
        facts.max_live_paths = facts.max_live_paths.max(live_paths);
        let mut eps: Vec<u8> = self.resources.values().flat_map(|r| r.observers.iter().map(|o| o.ep)).collect();
        eps.sort();
        eps.dedup();
        facts.max_live_endpoints = facts.max_live_endpoints.max(eps.len());
    }
}

/// Requests for (endpoint, token, path) built once per thread.
struct ReqTable {
    wide: bool,
    reqs: Vec<CoapRequest<String>>,
    acks: Vec<CoapRequest<String>>,
}

const MAX_EP: usize = 8;

impl ReqTable {
    fn new(wide: bool) -> ReqTable {
        let names = paths(wide);
        let mut reqs = Vec::new();
        for ep in 0..MAX_EP {
            for token in 0..TOKENS.len() {
                for name in names.iter() {
                    reqs.push(request(ep as u8, token as u8, name.0, 0));
                }
            }
        }
        let acks = (0..MAX_EP).map(|ep| request(ep as u8, 0, "", 0)).collect();
        ReqTable { wide, reqs, acks }
    }
    fn get(&self, ep: u8, token: u8, path: u8) -> &CoapRequest<String> {
        let np = paths(self.wide).len();
        &self.reqs[((ep as usize % MAX_EP) * TOKENS.len() + token as usize % TOKENS.len()) * np + path as usize]
    }
}

thread_local! {
    static TABLES: std::cell::RefCell<(ReqTable, ReqTable)> =
        std::cell::RefCell::new((ReqTable::new(false), ReqTable::new(true)));
}

fn apply_impl(s: &mut Subject<String>, op: &Op, names: &[(&str, &str)]) {
    let wide = names.len() == WIDE_PATHS.len();
    TABLES.with(|t| {
        let mut t = t.borrow_mut();
        let tab = if wide { &mut t.1 } else { &mut t.0 };
        match *op {
            Op::Register { ep, token, path } => s.register(tab.get(ep, token, path)),
            Op::Deregister { ep, token, path } => s.deregister(tab.get(ep, token, path)),
            Op::Changed { path, mid, con } => s.resource_changed(names[path as usize].1, mid, con),
            Op::Ack { ep, mid } => {
                let r = &mut tab.acks[ep as usize % MAX_EP];
                r.message.header.message_id = mid;
                s.acknowledge(r)
            }
        }
    })
}

thread_local! {
    static EP_NAMES: Vec<String> = (0..MAX_EP as u8).map(ep_name).collect();
}

/// Allocation-free comparison of one resource with the model; `true` when
/// everything the detailed comparison looks at is equal.
fn quick_equal(s: &Subject<String>, path: &str, want: Option<&MRes>, prev_seq: u32) -> bool {
    let r = match (s.get_resource(path), want) {
        (None, None) => return true,
        (Some(r), Some(_)) => r,
        _ => return false,
    };
    let w = want.unwrap();
    if r.sequence != prev_seq || r.observers.len() != w.observers.len() {
        return false;
    }
    EP_NAMES.with(|names| {
        r.observers.iter().zip(w.observers.iter()).all(|(o, m)| {
            #[cfg(feature = "hooks")]
            let count_ok = o.verif_unacknowledged() == m.count;
            #[cfg(not(feature = "hooks"))]
            let count_ok = true;
            count_ok
                && o.endpoint == names[m.ep as usize % MAX_EP]
                && o.token[..] == *TOKENS[m.token as usize % TOKENS.len()]
        })
    })
}

/// Observable state of one resource in the implementation.
fn observe_impl(s: &Subject<String>, path: &str) -> Option<(u32, Vec<(String, Vec<u8>, Option<u32>)>)> {
    let r = s.get_resource(path)?;
    let via_list = s.get_resource_observers(path);
    let obs: Vec<(String, Vec<u8>, Option<u32>)> = r
        .observers
        .iter()
        .map(|o| {
            #[cfg(feature = "hooks")]
            let c = Some(o.verif_unacknowledged());
            #[cfg(not(feature = "hooks"))]
            let c = None;
            (o.endpoint.clone(), o.token.clone(), c)
        })
        .collect();
    // the two accessors must agree with each other
    if let Some(l) = via_list {
        if l.len() != obs.len() || l.iter().zip(obs.iter()).any(|(a, b)| a.endpoint != b.0 || a.token != b.1) {
            return Some((u32::MAX, obs)); // flagged by the caller as an accessor disagreement
        }
    }
    Some((r.sequence, obs))
}

/// Runs a history step by step.  Returns the first divergence with the
/// property it belongs to.
fn run_history(h: &History, which: Which, acc: &mut Acc) -> Result<Facts, Fail> {
    let names = paths(h.wide);
    let mut subject: Subject<String> = Subject::default();
    subject.set_unacknowledged_limit(h.limit);
    let mut model = Model::default();
    let mut facts = Facts::default();
    // last observed sequence per path, to check monotonicity
    let mut last_seq: BTreeMap<u8, u32> = BTreeMap::new();
    for (step, op) in h.ops.iter().enumerate() {
        let had_observers_before: BTreeMap<u8, bool> = model
            .resources
            .iter()
            .map(|(p, r)| (*p, !r.observers.is_empty()))
            .collect();
        if let Err(msg) = catch(|| apply_impl(&mut subject, op, names)) {
            // a panic inside an operation: counting must never overflow or panic
            let f = Fail::new(
                "observe-panic",
                format!("step {step} {op:?} panicked (limit {}): {msg}", h.limit),
            );
            let prop = match op {
                Op::Register { .. } | Op::Deregister { .. } => "C14",
                _ => "C15",
            };
            return attribute(f, prop, which, acc).map(|_| facts);
        }
        model.apply(op, h.limit, &mut facts);
        let op_path: Option<u8> = match op {
            Op::Register { path, .. } | Op::Deregister { path, .. } | Op::Changed { path, .. } => Some(*path),
            Op::Ack { .. } => None,
        };
        let structural_op = matches!(op, Op::Register { .. } | Op::Deregister { .. });
        for (pi, name) in names.iter().enumerate() {
            let name = &name.1;
            let pi = pi as u8;
            let want = model.resources.get(&pi);
            let prev_seq = last_seq.get(&pi).copied().unwrap_or(0);
            let round_here = matches!(op, Op::Changed { path, .. } if *path == pi);
            if !round_here && quick_equal(&subject, name, want, prev_seq) {
                continue;
            }
            let got = observe_impl(&subject, name);
            // who owns a divergence on this path after this operation
            let owner = if structural_op || (op_path.is_some() && op_path != Some(pi)) {
                "C14"
            } else {
                "C15"
            };
            match (&got, want) {
                (None, None) => {}
                (Some((_, obs)), None) => {
                    // an entry for a path nobody registered on
                    let f = Fail::new(
                        if matches!(op, Op::Changed { .. }) { "c14-round-created-entry" } else { "c14-phantom-resource" },
                        format!("step {step} {op:?}: resource {name:?} exists with {} observers although nothing was ever registered on it; history {:?}", obs.len(), h.ops),
                    );
                    return attribute(f, "C14", which, acc).map(|_| facts);
                }
                (None, Some(w)) => {
                    if !w.observers.is_empty() {
                        let f = Fail::new(
                            "observe-resource-missing",
                            format!("step {step} {op:?}: resource {name:?} has no entry, model has {} observers; history {:?}", w.observers.len(), h.ops),
                        );
                        return attribute(f, owner, which, acc).map(|_| facts);
                    }
                }
                (Some((seq, obs)), Some(w)) => {
                    if *seq == u32::MAX && w.sequence != u32::MAX {
                        let f = Fail::new("c14-accessors-disagree", format!("step {step}: get_resource and get_resource_observers disagree on {name:?}"));
                        return attribute(f, "C14", which, acc).map(|_| facts);
                    }
                    let got_list: Vec<(String, Vec<u8>)> = obs.iter().map(|o| (o.0.clone(), o.1.clone())).collect();
                    let want_list: Vec<(String, Vec<u8>)> = w
                        .observers
                        .iter()
                        .map(|o| (ep_name(o.ep), TOKENS[o.token as usize % TOKENS.len()].to_vec()))
                        .collect();
                    if got_list != want_list {
                        let mut eps: Vec<&String> = got_list.iter().map(|o| &o.0).collect();
                        eps.sort();
                        let dup = eps.windows(2).any(|w| w[0] == w[1]);
                        let sig = if dup {
                            "c14-duplicate-endpoint"
                        } else if owner == "C14" {
                            match op {
                                Op::Register { .. } => "c14-register-list",
                                Op::Deregister { .. } => "c14-deregister-list",
                                _ => "c14-other-resource-touched",
                            }
                        } else if matches!(op, Op::Ack { .. }) {
                            "c15-ack-changed-list"
                        } else {
                            "c15-eviction"
                        };
                        // same observers, other order: the registry order is
                        // C14's business whatever operation disturbed it
                        let mut a = got_list.clone();
                        let mut b = want_list.clone();
                        a.sort();
                        b.sort();
                        let (sig, owner) = if !dup && a == b {
                            ("c14-order-changed", "C14")
                        } else {
                            (sig, owner)
                        };
                        let f = Fail::new(
                            sig,
                            format!(
                                "step {step} {op:?} (limit {}): observers of {name:?} are {:?}, model says {:?}; history {:?}",
                                h.limit,
                                got_list.iter().map(|o| format!("{}/{}", o.0, hex(&o.1))).collect::<Vec<_>>(),
                                want_list.iter().map(|o| format!("{}/{}", o.0, hex(&o.1))).collect::<Vec<_>>(),
                                h.ops
                            ),
                        );
                        return attribute(f, if dup { "C14" } else { owner }, which, acc).map(|_| facts);
                    }
                    // counters (hook)
                    for (o, m) in obs.iter().zip(w.observers.iter()) {
                        if let Some(c) = o.2 {
                            if c != m.count {
                                let (sig, prop) = match op {
                                    // both statements cover this one: C14 "clears its
                                    // unacknowledged count", C15 "count ... since its last
                                    // acknowledgement or registration"
                                    Op::Register { .. } if which == Which::C15 => {
                                        ("c15-count-not-reset-by-registration", "C15")
                                    }
                                    Op::Register { .. } => ("c14-count-not-cleared", "C14"),
                                    Op::Deregister { .. } => ("c14-count-touched", "C14"),
                                    Op::Changed { path, .. } if *path != pi => ("c14-other-resource-touched", "C14"),
                                    Op::Changed { .. } => ("c15-count", "C15"),
                                    Op::Ack { .. } => ("c15-ack-count", "C15"),
                                };
                                let f = Fail::new(
                                    sig,
                                    format!(
                                        "step {step} {op:?} (limit {}): observer {} of {name:?} has unacknowledged count {c}, model says {}; history {:?}",
                                        h.limit, o.0, m.count, h.ops
                                    ),
                                );
                                return attribute(f, prop, which, acc).map(|_| facts);
                            }
                        }
                    }
                    // sequence
                    let prev = last_seq.get(&pi).copied().unwrap_or(0);
                    let this_round = matches!(op, Op::Changed { path, .. } if *path == pi);
                    let observed_before = had_observers_before.get(&pi).copied().unwrap_or(false);
                    let seq_ok = if this_round && observed_before {
                        *seq == prev.wrapping_add(1)
                    } else if this_round {
                        // a round on a resource whose observers are all gone:
                        // +0 and +1 are both within the statement
                        *seq == prev || *seq == prev.wrapping_add(1)
                    } else {
                        *seq == prev
                    };
                    if !seq_ok {
                        let f = Fail::new(
                            if this_round { "c15-sequence-step" } else { "c15-sequence-changed-without-round" },
                            format!(
                                "step {step} {op:?}: sequence of {name:?} went from {prev} to {seq}; history {:?}",
                                h.ops
                            ),
                        );
                        let prop = if this_round || matches!(op, Op::Ack { .. }) { "C15" } else { "C14" };
                        return attribute(f, prop, which, acc).map(|_| facts);
                    }
                    last_seq.insert(pi, *seq);
                    // keep the model's sequence in step where the statement leaves latitude
                    if let Some(mr) = model.resources.get_mut(&pi) {
                        mr.sequence = *seq;
                    }
                }
            }
        }
    }
    Ok(facts)
}

/// A divergence that belongs to the other property ends the history quietly.
fn attribute(f: Fail, prop: &str, which: Which, acc: &mut Acc) -> Result<(), Fail> {
    let mine = match which {
        Which::C14 => "C14",
        Which::C15 => "C15",
    };
    if prop == mine {
        Err(f)
    } else {
        acc.class("divergence-left-to-the-other-property");
        Ok(())
    }
}

fn classify(h: &History, facts: &Facts, which: Which, acc: &mut Acc) -> bool {
    if facts.evictions > 0 {
        acc.class("eviction");
    }
    if facts.reregistrations > 0 {
        acc.class("re-registration");
    }
    if facts.deregistrations_hit > 0 {
        acc.class("deregistration-hit");
    }
    if facts.ack_between_cons {
        acc.class("ack-resets-count");
    }
    if facts.max_live_endpoints >= 2 {
        acc.class(">=2-endpoints-live");
    }
    if facts.max_live_paths >= 2 {
        acc.class(">=2-paths-live");
    }
    let _ = h;
    match which {
        Which::C14 => {
            (facts.max_live_endpoints >= 2 || facts.max_live_paths >= 2)
                && (facts.reregistrations > 0 || facts.deregistrations_hit > 0)
        }
        Which::C15 => facts.evictions > 0 || facts.ack_between_cons,
    }
}

pub fn check_history(h: &History, which: Which, acc: &mut Acc, enumerated: bool) -> Result<(), Fail> {
    let facts = run_history(h, which, acc)?;
    if classify(h, &facts, which, acc) {
        if enumerated {
            acc.nontrivial_enum();
        } else {
            acc.nontrivial(fp(h));
        }
    }
    if h.ops.len() >= 3 {
        acc.sample("history", || json!(h));
    }
    Ok(())
}

/// The enumeration alphabet: 2 endpoints x 2 tokens x 2 observed paths + 1
/// never-registered path x 2 message ids x {CON, NON}.
pub fn alphabet() -> Vec<Op> {
    let mut v = Vec::new();
    for ep in 0..2u8 {
        for token in 0..2u8 {
            for path in 0..2u8 {
                v.push(Op::Register { ep, token, path });
                v.push(Op::Deregister { ep, token, path });
            }
        }
    }
    for path in 0..3u8 {
        for mid in [0u16, 1] {
            for con in [true, false] {
                v.push(Op::Changed { path, mid, con });
            }
        }
    }
    for ep in 0..2u8 {
        for mid in [0u16, 1] {
            v.push(Op::Ack { ep, mid });
        }
    }
    v
}

fn op_strategy(wide_eps: u8, ntok: u8, npaths: u8) -> BoxedStrategy<Op> {
    let mid = prop_oneof![3 => 0u16..4, 1 => any::<u16>(), 1 => Just(0u16), 1 => Just(u16::MAX)];
    prop_oneof![
        4 => (0..wide_eps, 0..ntok, 0..npaths).prop_map(|(ep, token, path)| Op::Register { ep, token, path }),
        2 => (0..wide_eps, 0..ntok, 0..npaths).prop_map(|(ep, token, path)| Op::Deregister { ep, token, path }),
        6 => (0..npaths, mid.clone(), prop_oneof![3 => Just(true), 1 => Just(false)]).prop_map(|(path, mid, con)| Op::Changed { path, mid, con }),
        3 => (0..wide_eps, mid).prop_map(|(ep, mid)| Op::Ack { ep, mid }),
    ]
    .boxed()
}

// ------------------------------------------------------------ C15 directed

#[derive(Clone, Debug, PartialEq, Eq, Hash, Serialize, Deserialize)]
pub enum AckKind {
    None,
    Right,
    WrongEndpoint,
    WrongMid,
    Stale,
}

#[derive(Clone, Debug, PartialEq, Eq, Hash, Serialize, Deserialize)]
pub struct Rounds {
    pub limit: u8,
    pub rounds: Vec<(bool, AckKind)>,
}

/// Expands a round script into a plain history (observer ep0, bystander ep1
/// registered on the same path; message ids count up).
pub fn rounds_to_history(r: &Rounds) -> History {
    let mut ops = vec![
        Op::Register { ep: 0, token: 0, path: 0 },
        Op::Register { ep: 1, token: 1, path: 0 },
    ];
    let mut mid: u16 = if r.rounds.len() % 2 == 0 { 10 } else { 0xFFF0 };
    for (con, ack) in &r.rounds {
        let prev = mid;
        mid = mid.wrapping_add(1);
        ops.push(Op::Changed { path: 0, mid, con: *con });
        match ack {
            AckKind::None => {}
            AckKind::Right => ops.push(Op::Ack { ep: 0, mid }),
            AckKind::WrongEndpoint => ops.push(Op::Ack { ep: 2, mid }),
            AckKind::WrongMid => ops.push(Op::Ack { ep: 0, mid: mid.wrapping_add(500) }),
            AckKind::Stale => ops.push(Op::Ack { ep: 0, mid: prev }),
        }
        // the bystander acknowledges everything so it stays registered
        ops.push(Op::Ack { ep: 1, mid });
    }
    History { limit: r.limit, ops, wide: false }
}

#[derive(Clone, Debug, PartialEq, Eq, Hash, Serialize, Deserialize)]
pub struct Notif {
    pub mid: u16,
    pub token: Vec<u8>,
    pub sequence: u32,
    pub other_sequence: u32,
    pub payload: Vec<u8>,
    pub con: bool,
}

pub fn check_notification(_ctx: &Ctx, n: &Notif, acc: &mut Acc) -> Result<(), Fail> {
    let build = |seq: u32| -> Result<Packet, Fail> {
        match catch(|| create_notification(n.mid, n.token.clone(), seq, n.payload.clone(), n.con)) {
            Ok(p) => Ok(p),
            Err(msg) => Err(Fail::new("c15-notification-panic", format!("create_notification panicked: {msg}"))),
        }
    };
    let p = build(n.sequence)?;
    let want = Msg {
        version: 1,
        mtype: if n.con { 0 } else { 1 },
        token: n.token.clone(),
        code: 0x45,
        mid: n.mid,
        options: vec![(6, min_uint(n.sequence as u64))],
        payload: n.payload.clone(),
    };
    let got = to_msg(&p);
    ensure!(
        got == want,
        "c15-notification-fields",
        "create_notification(mid={}, token={}, seq={}, {}B, con={}) built ver={} type={} token={} code={:#04x} mid={} options={:?} payload={}B",
        n.mid, hex(&n.token), n.sequence, n.payload.len(), n.con,
        got.version, got.mtype, hex(&got.token), got.code, got.mid,
        got.options.iter().map(|(k, v)| format!("{k}:{}", hex(v))).collect::<Vec<_>>(), got.payload.len()
    );
    ensure!(
        p.get_observe_value() == Some(Ok(n.sequence)),
        "c15-notification-observe",
        "get_observe_value() = {:?} for sequence {}",
        p.get_observe_value(),
        n.sequence
    );
    let reference = want.encode().unwrap();
    match catch(|| p.to_bytes_unlimited()) {
        Ok(Ok(b)) => ensure!(
            b == reference,
            "c15-notification-bytes",
            "encoded notification {} differs from the reference {}",
            hex(&b),
            hex(&reference)
        ),
        other => fail!("c15-notification-encode", "encoding the notification failed: {other:?}"),
    }
    // ordering of successive notifications
    let q = build(n.other_sequence)?;
    let dec = |p: &Packet| -> Option<u32> {
        let bytes = p.to_bytes_unlimited().ok()?;
        Packet::from_bytes(&bytes).ok()?.get_observe_value()?.ok()
    };
    let (a, b) = (dec(&p), dec(&q));
    ensure!(
        a == Some(n.sequence) && b == Some(n.other_sequence),
        "c15-notification-order",
        "decoded Observe values {a:?} / {b:?} for sequences {} / {}",
        n.sequence,
        n.other_sequence
    );
    if n.sequence >= 256 || !n.token.is_empty() {
        acc.nontrivial(fp(n));
    }
    match min_uint(n.sequence as u64).len() {
        0 => acc.class("seq-0-bytes"),
        1 => acc.class("seq-1-byte"),
        2 => acc.class("seq-2-bytes"),
        3 => acc.class("seq-3-bytes"),
        _ => acc.class("seq-4-bytes"),
    }
    acc.sample("notification", || json!(n));
    Ok(())
}

/// Notification built from the registry's own state after a history.
fn check_notifications_from_registry(_ctx: &Ctx, h: &History, acc: &mut Acc) -> Result<(), Fail> {
    let names = paths(h.wide);
    let mut subject: Subject<String> = Subject::default();
    subject.set_unacknowledged_limit(h.limit);
    let mut last: BTreeMap<u8, u32> = BTreeMap::new();
    for op in &h.ops {
        if catch(|| apply_impl(&mut subject, op, names)).is_err() {
            return Ok(()); // panics are reported by the history check
        }
        if let Op::Changed { path, mid, con } = op {
            if let Some(r) = subject.get_resource(names[*path as usize].1) {
                if let Some(prev) = last.get(path) {
                    for o in &r.observers {
                        let n0 = create_notification(*mid, o.token.clone(), *prev, vec![1], *con);
                        let n1 = create_notification(*mid, o.token.clone(), r.sequence, vec![1], *con);
                        let (a, b) = (n0.get_observe_value(), n1.get_observe_value());
                        if let (Some(Ok(a)), Some(Ok(b))) = (a, b) {
                            ensure!(
                                b > a || r.observers.is_empty(),
                                "c15-notifications-not-ordered",
                                "successive notifications for {:?} carry Observe {a} then {b}",
                                names[*path as usize].1
                            );
                        }
                        ensure!(
                            n1.get_token() == &o.token[..] && n1.header.message_id == *mid,
                            "c15-notification-fields",
                            "notification does not carry the observer's token / the round's message id"
                        );
                        acc.class("registry-notification-pairs");
                    }
                }
                last.insert(*path, r.sequence);
            }
        }
    }
    Ok(())
}

pub fn run(ctx: &Ctx, rep: &mut Report, which: Which) {
    rep.assume("reference model of the registry (harness/src/props/observe.rs) is part of the trusted base");
    rep.assume("whether a resource whose observers are all gone keeps an (empty) entry, and whether a round on it advances its sequence, are not fixed by the statements; both are accepted");
    if cfg!(feature = "hooks") {
        rep.note("unacknowledged counters compared directly through the verif_hooks accessor");
    } else {
        rep.note("hook unavailable: counters are only visible through later evictions");
    }
    let alpha = alphabet();
    let a = alpha.len();
    let depth = ctx.pick(5usize, 6usize);
    let limits: Vec<u8> = match which {
        Which::C14 => vec![0, 1],
        Which::C15 => vec![0, 1, 2],
    };
    // all histories of length 1..=depth; chunk = (limit, first two operations)
    let alpha_ref = &alpha;
    let limits_ref = &limits;
    let name = match which {
        Which::C14 => "bounded-exhaustive-histories",
        Which::C15 => "bounded-exhaustive-histories-accounting",
    };
    run_enum_chunks(
        ctx,
        rep,
        name,
        &format!(
            "every operation sequence of length 1..={depth} over {a} operations (2 endpoints x 2 tokens x 2 observed paths + a never-registered path x message ids 0 and 1 x CON/NON) for unacknowledged limits {limits:?}, replayed from a fresh Subject and compared with the reference model after every step; distinct by construction; non-trivial = {}",
            match which {
                Which::C14 => ">= 2 endpoints or >= 2 paths live at once and at least one deregistration hit or re-registration",
                Which::C15 => "an eviction, or an acknowledgement that resets a non-zero count",
            }
        ),
        true,
        limits.len() * a * a,
        |c| {
            let limit = limits_ref[c / (a * a)];
            let first = (c / a) % a;
            let second = c % a;
            // lengths: the 1-op and 2-op histories are emitted by the chunks
            // with second == 0 / always, longer ones extend (first, second)
            let mut out: Vec<History> = Vec::new();
            if second == 0 {
                out.push(History { limit, ops: vec![alpha_ref[first]], wide: false });
            }
            out.push(History { limit, ops: vec![alpha_ref[first], alpha_ref[second]], wide: false });
            let rest_max = depth - 2;
            let mut iters: Vec<Box<dyn Iterator<Item = History> + Send>> = vec![Box::new(out.into_iter())];
            for extra in 1..=rest_max {
                let total = (a as u64).pow(extra as u32);
                let alpha = alpha_ref.clone();
                iters.push(Box::new((0..total).map(move |mut idx| {
                    let mut ops = Vec::with_capacity(2 + extra);
                    ops.push(alpha[first]);
                    ops.push(alpha[second]);
                    for _ in 0..extra {
                        ops.push(alpha[(idx % a as u64) as usize]);
                        idx /= a as u64;
                    }
                    History { limit, ops, wide: false }
                })));
            }
            iters.into_iter().flatten()
        },
        |_ctx, h: &History, acc| check_history(h, which, acc, true),
    );

    let n = ctx.cases(6_000, 200_000);
    run_prop(
        ctx,
        rep,
        "random-long-histories",
        "random histories of up to 200 operations over 6 endpoints x 18 tokens (every length 0..=8, near-identical pairs, prefixes) x 10 paths (with '/', empty, non-ASCII, a leading empty segment, a trailing slash, segments of 255 and 256 bytes differing in the last byte) and limits {0,1,2,3,10,255}; compared with the model after every step; distinct by history hash",
        n,
        || {
            (
                proptest::sample::select(vec![0u8, 1, 2, 3, 10, 255]),
                proptest::collection::vec(op_strategy(6, TOKENS.len() as u8, WIDE_PATHS.len() as u8), 0..200),
            )
                .prop_map(|(limit, ops)| History { limit, ops, wide: true })
        },
        move |_ctx, h: &History, acc| check_history(h, which, acc, false),
    );

    if which == Which::C14 {
        // many observers on one resource: every one listed, in registration order
        run_list(
            ctx,
            rep,
            "many-observers-on-one-resource",
            "n distinct endpoints (n = 1, 2, 3, 200, 255, 256, 257, 300, 1000) register on one path: all are listed in order; re-registering the k-th replaces it in place; deregistering every other one leaves the rest in order",
            true,
            vec![1usize, 2, 3, 200, 255, 256, 257, 300, 1000],
            |_ctx, n: &usize, acc| {
                let n = *n;
                let mut s: Subject<String> = Subject::default();
                let mk = |i: usize, tok: u8| {
                    let mut r: CoapRequest<String> = CoapRequest::new();
                    r.source = Some(format!("peer-{i}"));
                    r.set_path("many/x");
                    r.message.set_token(vec![tok, (i % 251) as u8]);
                    r
                };
                for i in 0..n {
                    s.register(&mk(i, 1));
                }
                let list = |s: &Subject<String>| -> Vec<(String, Vec<u8>)> {
                    s.get_resource("many/x")
                        .map(|r| r.observers.iter().map(|o| (o.endpoint.clone(), o.token.clone())).collect())
                        .unwrap_or_default()
                };
                let mut want: Vec<(String, Vec<u8>)> = (0..n).map(|i| (format!("peer-{i}"), vec![1, (i % 251) as u8])).collect();
                ensure!(
                    list(&s) == want,
                    "c14-many-observers",
                    "{n} distinct endpoints registered on one resource, {} are listed (or the order differs)",
                    list(&s).len()
                );
                let k = n / 2;
                s.register(&mk(k, 2));
                want[k].1 = vec![2, (k % 251) as u8];
                ensure!(list(&s) == want, "c14-many-observers", "re-registering endpoint {k} of {n} did not replace it in place");
                for i in (0..n).step_by(2) {
                    let tok = if i == k { 2 } else { 1 };
                    s.deregister(&mk(i, tok));
                }
                let want: Vec<(String, Vec<u8>)> = want.into_iter().enumerate().filter(|(i, _)| i % 2 == 1).map(|(_, x)| x).collect();
                ensure!(list(&s) == want, "c14-many-observers", "after deregistering every other of {n} observers {} remain, expected {}", list(&s).len(), want.len());
                acc.nontrivial_enum();
                if n >= 255 {
                    acc.class("observers>=255");
                }
                Ok(())
            },
        );
    }
    if which == Which::C15 {
        // exact eviction point for every limit, straight CON rounds
        let mut cases = Vec::new();
        for limit in 0..=255u8 {
            for extra in [0usize, 1, 2] {
                cases.push(Rounds { limit, rounds: vec![(true, AckKind::None); limit as usize + extra] });
            }
        }
        for limit in [0u8, 1, 10, 254, 255] {
            // an acknowledgement one round before the limit restarts the count
            let mut r = vec![(true, AckKind::None); limit as usize];
            r.push((true, AckKind::Right));
            r.extend(vec![(true, AckKind::None); limit as usize + 1]);
            cases.push(Rounds { limit, rounds: r });
            // wrong acknowledgements change nothing
            for k in [AckKind::WrongEndpoint, AckKind::WrongMid, AckKind::Stale] {
                cases.push(Rounds { limit, rounds: vec![(true, k.clone()); limit as usize + 2] });
            }
            // non-confirmable rounds never count
            let mut r = vec![(false, AckKind::None); 300];
            r.extend(vec![(true, AckKind::None); limit as usize + 1]);
            cases.push(Rounds { limit, rounds: r });
        }
        run_list(
            ctx,
            rep,
            "eviction-point-for-every-limit",
            "for every limit 0..=255: exactly limit, limit+1 and limit+2 unacknowledged confirmable rounds (observer present after limit, gone after limit+1); for limits 0/1/10/254/255 also a right acknowledgement just before the limit, wrong-endpoint / wrong-id / stale acknowledgements, and 300 non-confirmable rounds first",
            true,
            cases,
            |_ctx, r: &Rounds, acc| {
                let h = rounds_to_history(r);
                let facts = run_history(&h, Which::C15, acc)?;
                if facts.evictions > 0 || facts.ack_between_cons {
                    acc.nontrivial_enum();
                }
                if r.limit >= 254 {
                    acc.class("limit>=254");
                }
                Ok(())
            },
        );
        let n = ctx.cases(3_000, 60_000);
        run_prop(
            ctx,
            rep,
            "long-round-scripts",
            "random round scripts of up to 600 rounds (CON/NON mix, right / wrong-endpoint / wrong-id / stale acknowledgements) at limits 0, 1, 2, 10, 254, 255 with a bystander observer that acknowledges everything",
            n,
            || {
                (
                    proptest::sample::select(vec![0u8, 1, 2, 10, 254, 255]),
                    prop_oneof![3 => 0usize..40, 2 => 200usize..600],
                )
                    .prop_flat_map(|(limit, len)| {
                        // long stretches without a right acknowledgement are needed to reach high limits
                        let p_right = if limit >= 200 { 1u32 } else { 12 };
                        (
                            Just(limit),
                            proptest::collection::vec(
                                (
                                    prop_oneof![5 => Just(true), 1 => Just(false)],
                                    prop_oneof![
                                        60 => Just(AckKind::None),
                                        p_right => Just(AckKind::Right),
                                        6 => Just(AckKind::WrongEndpoint),
                                        6 => Just(AckKind::WrongMid),
                                        6 => Just(AckKind::Stale),
                                    ],
                                ),
                                len,
                            ),
                        )
                    })
                    .prop_map(|(limit, rounds)| Rounds { limit, rounds })
            },
            |ctx, r: &Rounds, acc| {
                let h = rounds_to_history(r);
                let facts = run_history(&h, Which::C15, acc)?;
                if facts.evictions > 0 || facts.ack_between_cons {
                    acc.nontrivial(fp(r));
                }
                if facts.evictions > 0 {
                    acc.class("eviction");
                }
                if r.rounds.len() >= 256 {
                    acc.class("rounds>=256");
                }
                check_notifications_from_registry(ctx, &h, acc)
            },
        );
        let n = ctx.cases(40_000, 1_000_000);
        run_prop(
            ctx,
            rep,
            "notification-builder",
            "create_notification over token length 0..=8, sequence numbers across every byte-length boundary, both types, payloads: fields, Observe option (minimal uint), encoded bytes against the reference, decoded ordering; non-trivial = sequence >= 256 or a token",
            n,
            || {
                let seq = || {
                    prop_oneof![
                        2 => proptest::sample::select(vec![0u32, 1, 255, 256, 65535, 65536, (1 << 24) - 1, 1 << 24, u32::MAX - 1, u32::MAX]),
                        1 => any::<u32>(),
                        1 => (0u32..32, any::<u32>()).prop_map(|(s, v)| v >> s),
                    ]
                };
                (
                    any::<u16>(),
                    proptest::collection::vec(any::<u8>(), 0..=8),
                    seq(),
                    seq(),
                    proptest::collection::vec(any::<u8>(), 0..40),
                    any::<bool>(),
                )
                    .prop_map(|(mid, token, sequence, other_sequence, payload, con)| Notif {
                        mid,
                        token,
                        sequence,
                        other_sequence,
                        payload,
                        con,
                    })
            },
            check_notification,
        );
    }
}
