//! C04 — the serialiser enforces the size limit exactly and stays inside its
//! buffers.

use coap_lite::error::MessageError;
use proptest::prelude::*;
use serde::{Deserialize, Serialize};
use serde_json::json;

use crate::engine::*;
use crate::gen::wire::*;
use crate::pkt::*;
use crate::props::c01::MAX_SIZE;
use crate::refmodel::wire::{EncErr, Msg};
use crate::{ensure, fail};

#[derive(Clone, Debug, PartialEq, Eq, Hash, Serialize, Deserialize)]
pub struct Case {
    pub spec: MsgSpec,
    /// `None` stands for `usize::MAX`.
    pub limit: Option<u64>,
    pub pad: String,
}

fn limit_strategy() -> BoxedStrategy<Option<u64>> {
    prop_oneof![
        2 => (0u64..=8).prop_map(Some),
        2 => (9u64..=64).prop_map(Some),
        4 => (1278u64..=1282).prop_map(Some),
        2 => (63_998u64..=64_002).prop_map(Some),
        2 => (0u64..=2000).prop_map(Some),
        1 => (0u64..=70_000).prop_map(Some),
        1 => Just(None),
    ]
    .boxed()
}

/// Grows `spec` towards a reference wire length of exactly `target` bytes by
/// payload (`by_payload`) or by the last option's value.
fn pad_to(spec: &mut MsgSpec, target: usize, by_payload: bool) -> &'static str {
    let len = |s: &MsgSpec| s.msg().wire_len().unwrap_or(usize::MAX);
    let cur = len(spec);
    if cur == usize::MAX {
        return "unencodable";
    }
    if cur >= target {
        return "head-already-at-or-over";
    }
    if by_payload || spec.options.is_empty() {
        if spec.code == 0 {
            return "empty-code-no-padding";
        }
        let have = spec.payload.len();
        let extra = target - cur;
        let newlen = if have == 0 {
            if extra < 2 {
                return "gap-of-one-unreachable-by-payload";
            }
            extra - 1
        } else {
            have + extra
        };
        spec.payload = Blob::Pat {
            len: newlen as u32,
            seed: 0x5A,
        };
        "payload"
    } else {
        let last = spec.options.len() - 1;
        // grow the last value; the header grows by 1 at 13 and by 1 at 269
        let base = spec.options[last].1.len();
        let mut v = base + (target - cur);
        for _ in 0..4 {
            v = v.min(65_804);
            spec.options[last].1 = Blob::Pat {
                len: v as u32,
                seed: 0xA5,
            };
            let now = len(spec);
            if now == target || v == 0 {
                break;
            }
            if now > target {
                v -= (now - target).min(v);
            } else {
                v += target - now;
            }
        }
        "option-value"
    }
}

fn case_strategy() -> BoxedStrategy<Case> {
    (
        msg_spec(4, 300, 40),
        limit_strategy(),
        -1i64..=1,
        any::<bool>(),
        prop_oneof![8 => Just(true), 1 => Just(false)],
    )
        .prop_map(|(mut spec, limit, off, by_payload, do_pad)| {
            spec.token.truncate(8);
            let pad = if do_pad {
                let lim = limit.unwrap_or(1280).min(70_000) as i64;
                let target = (lim + off).max(0) as usize;
                pad_to(&mut spec, target, by_payload)
            } else {
                "none"
            };
            Case {
                spec,
                limit,
                pad: pad.to_string(),
            }
        })
        .boxed()
}

fn expect_len_error(
    what: &str,
    r: Result<Result<Vec<u8>, MessageError>, String>,
    l: usize,
    limit: usize,
) -> Result<(), Fail> {
    match r {
        Err(msg) => fail!("c04-panic", "{what} panicked: {msg}"),
        Ok(Ok(b)) => fail!(
            "c04-limit-not-enforced",
            "{what} returned {} bytes although the wire length {l} exceeds the limit {limit}",
            b.len()
        ),
        Ok(Err(MessageError::InvalidPacketLength)) => Ok(()),
        Ok(Err(e)) => fail!(
            "c04-wrong-error",
            "{what} refused an over-long message (wire length {l}, limit {limit}) with {e:?} instead of the packet-length error"
        ),
    }
}

fn expect_bytes(
    what: &str,
    r: Result<Result<Vec<u8>, MessageError>, String>,
    want: &[u8],
    limit: usize,
) -> Result<(), Fail> {
    match r {
        Err(msg) => fail!("c04-panic", "{what} panicked: {msg}"),
        Ok(Err(e)) => fail!(
            "c04-refused-within-limit",
            "{what} refused a message of wire length {} within the limit {limit}: {e:?}",
            want.len()
        ),
        Ok(Ok(b)) => {
            ensure!(
                b.len() == want.len(),
                "c04-wrong-length",
                "{what} returned {} bytes, exact wire length is {}",
                b.len(),
                want.len()
            );
            ensure!(
                b == want,
                "c04-wrong-bytes",
                "{what} output differs from the wire image: {}",
                first_diff(&b, want)
            );
            Ok(())
        }
    }
}

pub fn check_msg_limit(
    m: &Msg,
    limit: usize,
    acc: &mut Acc,
) -> Result<(), Fail> {
    let mut p = from_msg(m);
    if m.code == 0 && m.mid & 1 == 1 {
        // code byte 0.00 as a caller can also build it by hand; whether its
        // payload is sent is read off the unlimited call below, as for Empty
        p.header.code = coap_lite::MessageClass::Reserved(0);
        acc.class("code-0-built-as-Reserved(0)");
    }
    if m.mid & 6 == 6 {
        // option numbers that were used and cleared again hold no option
        let mut nums: Vec<u16> = m.options.iter().map(|o| o.0.saturating_sub(1)).take(2).collect();
        nums.push(m.options.first().map(|o| o.0 / 2).unwrap_or(9));
        for n in nums {
            if !m.options.iter().any(|o| o.0 == n) {
                p.add_option(coap_lite::CoapOption::from(n), vec![1, 2]);
                p.clear_option(coap_lite::CoapOption::from(n));
                acc.class("with-cleared-option-numbers");
            }
        }
    }
    let reference = match m.encode() {
        Ok(r) => r,
        Err(EncErr::OptionValueTooLong) => {
            acc.class("unencodable-option-value");
            for (what, r) in [
                ("to_bytes_unlimited", catch(|| p.to_bytes_unlimited())),
                ("to_bytes_with_limit", catch(|| p.to_bytes_with_limit(limit))),
                ("to_bytes", catch(|| p.to_bytes())),
            ] {
                match r {
                    Err(msg) => fail!("c04-panic", "{what} panicked: {msg}"),
                    Ok(Ok(b)) => fail!(
                        "c04-overlong-option-emitted",
                        "{what} emitted {} bytes for a message with an option value too long for the 16-bit extended length (lengths {:?})",
                        b.len(),
                        m.options.iter().map(|o| o.1.len()).collect::<Vec<_>>()
                    ),
                    Ok(Err(_)) => {}
                }
            }
            return Ok(());
        }
        Err(e) => fail!("harness", "reference encoder: {e:?}"),
    };
    // What "the payload is sent" means is read off the unlimited call.
    let unl = match catch(|| p.to_bytes_unlimited()) {
        Err(msg) => fail!("c04-panic", "to_bytes_unlimited panicked: {msg}"),
        Ok(Err(e)) => fail!(
            "c04-unlimited-refused",
            "to_bytes_unlimited refused a message of wire length {}: {e:?}",
            reference.len()
        ),
        Ok(Ok(b)) => b,
    };
    let alt = m.encode_with_payload_always().unwrap();
    let want: &[u8] = if unl == reference {
        &reference
    } else if m.code == 0 && unl == alt {
        acc.class("empty-code-payload-sent");
        &alt
    } else {
        fail!(
            "c04-wrong-bytes",
            "to_bytes_unlimited output differs from the wire image: {}",
            first_diff(&unl, &reference)
        );
    };
    let l = want.len();
    if l <= limit {
        acc.class("within-custom-limit");
        expect_bytes(
            "to_bytes_with_limit",
            catch(|| p.to_bytes_with_limit(limit)),
            want,
            limit,
        )?;
    } else {
        acc.class("over-custom-limit");
        expect_len_error(
            "to_bytes_with_limit",
            catch(|| p.to_bytes_with_limit(limit)),
            l,
            limit,
        )?;
    }
    if l <= MAX_SIZE {
        acc.class("within-default-limit");
        expect_bytes("to_bytes", catch(|| p.to_bytes()), want, MAX_SIZE)?;
    } else {
        acc.class("over-default-limit");
        expect_len_error("to_bytes", catch(|| p.to_bytes()), l, MAX_SIZE)?;
    }
    // limits exactly around the wire length, whatever the generated limit was
    for (lim, ok) in [(l, true), (l + 1, true), (l.wrapping_sub(1), false)] {
        if l == 0 && !ok {
            continue;
        }
        if ok {
            expect_bytes(
                "to_bytes_with_limit(L or L+1)",
                catch(|| p.to_bytes_with_limit(lim)),
                want,
                lim,
            )?;
        } else {
            expect_len_error(
                "to_bytes_with_limit(L-1)",
                catch(|| p.to_bytes_with_limit(lim)),
                l,
                lim,
            )?;
        }
    }
    let d = (l as i128 - limit as i128).abs();
    if d <= 1 {
        acc.class("|L-limit|<=1");
    }
    if (l as i128 - MAX_SIZE as i128).abs() <= 1 {
        acc.class("|L-MAX_SIZE|<=1");
    }
    Ok(())
}

pub fn check_case(_ctx: &Ctx, c: &Case, acc: &mut Acc) -> Result<(), Fail> {
    let m = c.spec.msg();
    let limit = c.limit.map(|x| x as usize).unwrap_or(usize::MAX);
    match c.pad.as_str() {
        "payload" => acc.class("pad:payload"),
        "option-value" => acc.class("pad:option-value"),
        "none" => acc.class("pad:none"),
        _ => acc.class("pad:not-applied"),
    }
    if m.code == 0 && !m.payload.is_empty() {
        acc.class("empty-code-with-payload-field");
    }
    let l = m.wire_len().unwrap_or(usize::MAX);
    let near = (l as i128 - limit as i128).abs() <= 1
        || (l as i128 - MAX_SIZE as i128).abs() <= 1
        || m.options.iter().any(|o| o.1.len() >= 65_536);
    if near {
        acc.nontrivial(fp(c));
    }
    acc.sample("case", || json!({"limit": c.limit, "pad": c.pad, "wire_len": l, "spec": c.spec}));
    check_msg_limit(&m, limit, acc)
}

pub fn run(ctx: &Ctx, rep: &mut Report) {
    rep.assume("exact wire length is computed by the reference encoder (RFC 7252 section 3); whether the payload of a 0.00 message is sent is read off to_bytes_unlimited");
    rep.assume("memory-safety clause: out-of-allocation writes are visible only in the ASan harness build / libFuzzer target (thorough tier); in the plain build a wrong byte is caught by the byte-for-byte comparison and a hard crash is reported by the driver");
    rep.note(format!("MAX_SIZE assumed {MAX_SIZE}"));

    // (a) directed: payload padding to every length around the default limit,
    // for several head shapes
    let mut cases = Vec::new();
    for tkl in [0usize, 1, 8] {
        for optlen in [None, Some(0usize), Some(12), Some(13), Some(268), Some(269), Some(300)] {
            for target in (MAX_SIZE - 3)..=(MAX_SIZE + 3) {
                for by_payload in [true, false] {
                    let mut spec = MsgSpec {
                        version: 1,
                        mtype: 0,
                        token: vec![7; tkl],
                        code: 0x02,
                        mid: 9,
                        options: optlen
                            .map(|l| vec![(11u16, Blob::Pat { len: l as u32, seed: 1 })])
                            .unwrap_or_default(),
                        payload: Blob::Lit(vec![]),
                    };
                    let pad = pad_to(&mut spec, target, by_payload).to_string();
                    cases.push(Case { spec, limit: Some(MAX_SIZE as u64), pad });
                }
            }
        }
    }
    // (b) option values at and beyond the 16-bit extended-length limit
    for l in [65_535usize, 65_536, 65_803, 65_804, 65_805, 65_806, 65_810, 70_000, 131_340] {
        for limit in [None, Some(200_000u64), Some(65_000)] {
            for second in [false, true] {
                let mut options = vec![(3u16, Blob::Pat { len: l as u32, seed: 9 })];
                if second {
                    options.push((300, Blob::Lit(vec![1, 2, 3])));
                }
                cases.push(Case {
                    spec: MsgSpec {
                        version: 1,
                        mtype: 1,
                        token: vec![1, 2],
                        code: 0x45,
                        mid: 77,
                        options,
                        payload: Blob::Lit(vec![0xEE]),
                    },
                    limit,
                    pad: "none".into(),
                });
            }
        }
    }
    // (b2) the over-long value among siblings of the same option number and
    // behind other options: every value counts, wherever it stands and
    // whatever its bytes are
    for l in [65_804usize, 65_805, 70_000] {
        for limit in [None, Some(200_000u64)] {
            for shape in 0..5u8 {
                let long = Blob::Pat { len: l as u32, seed: 9 };
                let hi = Blob::Lit(vec![0xFF, 0xFF]);
                let lo = Blob::Lit(vec![]);
                let options = match shape {
                    0 => vec![(3u16, long), (3, hi)],
                    1 => vec![(3u16, hi), (3, long)],
                    2 => vec![(3u16, lo), (3, long), (3, hi)],
                    3 => vec![(1u16, hi), (3, Blob::Lit(vec![7])), (300, long)],
                    _ => vec![(65_535u16, hi), (65_535, long)],
                };
                cases.push(Case {
                    spec: MsgSpec { version: 1, mtype: 0, token: vec![], code: 0x02, mid: 78, options, payload: Blob::Lit(vec![]) },
                    limit,
                    pad: "none".into(),
                });
            }
        }
    }
    // (c) Empty-code messages that carry a payload field
    for plen in [1usize, 2, 1275, 1276, 1277, 1300, 70_000] {
        for limit in [Some(4u64), Some(5), Some(1280), None] {
            cases.push(Case {
                spec: MsgSpec {
                    version: 1,
                    mtype: 2,
                    token: vec![],
                    code: 0,
                    mid: 5,
                    options: vec![],
                    payload: Blob::Pat { len: plen as u32, seed: 2 },
                },
                limit,
                pad: "none".into(),
            });
        }
    }
    // (d) tiny limits around the bare header
    for limit in 0u64..=12 {
        for tkl in [0usize, 1, 4, 8] {
            cases.push(Case {
                spec: MsgSpec {
                    version: 1,
                    mtype: 0,
                    token: vec![3; tkl],
                    code: 1,
                    mid: 1,
                    options: vec![],
                    payload: Blob::Lit(vec![]),
                },
                limit: Some(limit),
                pad: "none".into(),
            });
        }
    }
    run_list(
        ctx,
        rep,
        "directed-limit-boundaries",
        "messages padded by payload / by the last option value to every wire length MAX_SIZE-3..=MAX_SIZE+3 for several head shapes; option values of 65535..131340 bytes; 0.00 messages with a payload field; limits 0..=12 around the bare header",
        false,
        cases,
        check_case,
    );

    let n = ctx.cases(200_000, 2_000_000);
    run_prop(
        ctx,
        rep,
        "random-message-x-limit",
        "random (message, limit) pairs with the message padded by payload or option value to limit-1 / limit / limit+1 (reference length function + fix-up across the 13/269 header steps); every case additionally probes limits L-1, L, L+1 around its own wire length L; non-trivial = |L - limit| <= 1 or |L - MAX_SIZE| <= 1 or an option value >= 65536 bytes; distinct by case hash",
        n,
        case_strategy,
        check_case,
    );
}
