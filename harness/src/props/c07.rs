//! C07 — prepared responses are correlated with their request.

use coap_lite::error::HandlingError;
use coap_lite::{CoapOption, CoapRequest, CoapResponse, ResponseType};
use proptest::prelude::*;
use serde::{Deserialize, Serialize};
use serde_json::json;

use crate::engine::*;
use crate::gen::wire::*;
use crate::pkt::*;
use crate::refmodel::registry as reg;
use crate::refmodel::wire::Msg;
use crate::{ensure, fail};

#[derive(Clone, Debug, Serialize, Deserialize)]
pub struct Corr {
    pub mtype: u8,
    pub version: u8,
    pub tkl: u8,
    pub mid: u16,
}

fn check_response_for(m: &Msg, acc: &mut Acc) -> Result<(), Fail> {
    check_response_for_packet(m, from_msg(m), acc)?;
    // the same code byte as a caller can build it by hand: the UnKnown
    // placeholders (byte 0xFF) and Reserved(0) (byte 0x00)
    use coap_lite::{MessageClass, RequestType};
    let by_hand: Vec<MessageClass> = match m.code {
        0xFF => vec![MessageClass::Request(RequestType::UnKnown), MessageClass::Response(ResponseType::UnKnown)],
        0x00 => vec![MessageClass::Reserved(0)],
        _ => vec![],
    };
    for code in by_hand {
        let mut p = from_msg(m);
        p.header.code = code;
        acc.class("code-variant-built-by-hand");
        check_response_for_packet(m, p, acc)?;
    }
    Ok(())
}

fn check_response_for_packet(m: &Msg, p: coap_lite::Packet, _acc: &mut Acc) -> Result<(), Fail> {
    let resp = match catch(|| CoapResponse::new(&p)) {
        Ok(r) => r,
        Err(msg) => fail!("c07-new-panic", "CoapResponse::new panicked: {msg}"),
    };
    let expect_some = m.mtype == 0 || m.mtype == 1;
    ensure!(
        resp.is_some() == expect_some,
        "c07-response-presence",
        "request type {} -> response prepared: {}, expected {}",
        m.mtype,
        resp.is_some(),
        expect_some
    );
    let req = match catch(|| CoapRequest::from_packet(p.clone(), 4242u32)) {
        Ok(r) => r,
        Err(msg) => fail!("c07-from-packet-panic", "from_packet panicked: {msg}"),
    };
    ensure!(
        req.response == resp,
        "c07-from-packet-response",
        "from_packet(..).response differs from CoapResponse::new"
    );
    ensure!(
        req.message == p && to_msg(&req.message) == *m,
        "c07-from-packet-message",
        "from_packet changed the request message"
    );
    ensure!(
        req.source == Some(4242u32),
        "c07-from-packet-source",
        "from_packet source is {:?}",
        req.source
    );
    if let Some(r) = resp {
        let got = to_msg(&r.message);
        let want = Msg {
            version: 1,
            mtype: if m.mtype == 0 { 2 } else { 1 },
            token: m.token.clone(),
            code: 0x45,
            mid: m.mid,
            options: vec![],
            payload: vec![],
        };
        if got != want {
            let sig = if got.mtype != want.mtype {
                "c07-reply-type"
            } else if got.mid != want.mid {
                "c07-reply-message-id"
            } else if got.token != want.token {
                "c07-reply-token"
            } else if got.version != want.version {
                "c07-reply-version"
            } else if got.code != want.code {
                "c07-reply-code"
            } else {
                "c07-reply-echoes-request-content"
            };
            fail!(
                sig,
                "prepared response has ver={} type={} token={} code={:#04x} mid={} options={} payload={}B; expected ver=1 type={} token={} code=0x45 mid={} no options, no payload",
                got.version, got.mtype, hex(&got.token), got.code, got.mid, got.options.len(), got.payload.len(),
                want.mtype, hex(&want.token), want.mid
            );
        }
        ensure!(
            r.message.header.get_token_length() as usize == m.token.len(),
            "c07-reply-token",
            "reply TKL {} for a {}-byte token",
            r.message.header.get_token_length(),
            m.token.len()
        );
        let enc = match catch(|| r.message.to_bytes()) {
            Ok(Ok(b)) => b,
            other => fail!("c07-reply-encode", "encoding the prepared reply failed: {other:?}"),
        };
        let reference = want.encode().unwrap();
        ensure!(
            enc == reference,
            "c07-reply-bytes",
            "encoded reply {} differs from the reference {}",
            hex(&enc),
            hex(&reference)
        );
    }
    Ok(())
}

pub fn check_corr(_ctx: &Ctx, c: &Corr, acc: &mut Acc) -> Result<(), Fail> {
    let seed = (c.mid as u8) ^ ((c.mid >> 8) as u8);
    let m = Msg {
        version: c.version,
        mtype: c.mtype,
        token: pattern(c.tkl as usize, seed),
        code: 0x02,
        mid: c.mid,
        options: vec![(11, b"res".to_vec()), (12, vec![50])],
        payload: vec![seed, 1, 2],
    };
    if c.tkl > 0 {
        acc.nontrivial_enum();
    }
    if c.mid & 0xfff == 0 {
        acc.sample("correlation", || json!(c));
    }
    check_response_for(&m, acc)
}

#[derive(Clone, Debug, Serialize, Deserialize, Hash)]
pub struct ErrCase {
    pub request: MsgSpec,
    /// index into the status table; `len` = UnKnown; None = no code
    pub code: Option<u8>,
    pub constructor: u8,
    pub message: String,
    pub prepared: Option<Prepared>,
    /// the prepared response is removed (or the request was built with
    /// `CoapRequest::new()`), although the message is CON/NON
    #[serde(default)]
    pub response_removed: u8,
}

#[derive(Clone, Debug, Serialize, Deserialize, Hash)]
pub struct Prepared {
    pub options: Vec<(u16, Blob)>,
    pub content_format: Option<u16>,
    pub payload: Blob,
    pub status: u8,
}

fn status_of(i: u8) -> ResponseType {
    let t = reg::statuses();
    if (i as usize) < t.len() {
        t[i as usize].0
    } else {
        ResponseType::UnKnown
    }
}

pub fn check_err(_ctx: &Ctx, c: &ErrCase, acc: &mut Acc) -> Result<(), Fail> {
    let m = c.request.msg();
    let mut req = CoapRequest::from_packet(from_msg(&m), 7u32);
    match c.response_removed {
        1 => {
            req.response = None;
        }
        2 => {
            let mut fresh: CoapRequest<u32> = CoapRequest::new();
            fresh.message = from_msg(&m);
            fresh.source = Some(7);
            req = fresh;
        }
        _ => {}
    }
    if c.response_removed > 0 {
        acc.class("response-removed");
    }
    if let (Some(resp), Some(pre)) = (req.response.as_mut(), c.prepared.as_ref()) {
        for (n, b) in &pre.options {
            resp.message.add_option(CoapOption::from(*n), b.bytes());
        }
        if let Some(cf) = pre.content_format {
            resp.message.add_option(CoapOption::ContentFormat, crate::props::c01::min_uint(cf as u64));
        }
        resp.message.payload = pre.payload.bytes();
        resp.message.header.code = coap_lite::MessageClass::Response(status_of(pre.status));
    }
    let code = c.code.map(status_of);
    let err = match (c.constructor % 6, code) {
        (0, Some(ResponseType::NotFound)) => HandlingError::not_found(),
        (1, Some(ResponseType::BadRequest)) => HandlingError::bad_request(&c.message),
        (2, Some(ResponseType::InternalServerError)) => HandlingError::internal(&c.message),
        (3, Some(ResponseType::MethodNotAllowed)) => HandlingError::method_not_supported(),
        (_, Some(code)) if c.constructor % 2 == 0 => HandlingError::with_code(code, &c.message),
        (_, Some(code)) => HandlingError { code: Some(code), message: c.message.clone() },
        (0, None) => HandlingError::not_handled(),
        (_, None) => HandlingError { code: None, message: c.message.clone() },
    };
    let err_message = err.message.clone();
    let before = req.clone();
    let ret = match catch(|| req.apply_from_error(err)) {
        Ok(r) => r,
        Err(msg) => fail!("c07-apply-panic", "apply_from_error panicked: {msg}"),
    };
    let expect = before.response.is_some() && code.is_some();
    ensure!(
        ret == expect,
        "c07-apply-return",
        "apply_from_error returned {ret} with response present = {} and code = {code:?}",
        before.response.is_some()
    );
    ensure!(
        req.message == before.message && req.source == before.source,
        "c07-apply-touched-request",
        "apply_from_error changed the request message or source"
    );
    if !ret {
        acc.class("apply:false");
        ensure!(
            req.response == before.response,
            "c07-apply-false-but-changed",
            "apply_from_error returned false but changed the response"
        );
    } else {
        acc.class("apply:true");
        let (b, a) = (
            to_msg(&before.response.as_ref().unwrap().message),
            to_msg(&req.response.as_ref().unwrap().message),
        );
        ensure!(
            a.version == b.version && a.mtype == b.mtype && a.mid == b.mid && a.token == b.token,
            "c07-apply-correlation",
            "apply_from_error changed correlation fields: before ver={} type={} mid={} token={}, after ver={} type={} mid={} token={}",
            b.version, b.mtype, b.mid, hex(&b.token), a.version, a.mtype, a.mid, hex(&a.token)
        );
        let strip = |m: &Msg| -> Vec<(u16, Vec<u8>)> {
            m.options.iter().filter(|o| o.0 != 12).cloned().collect()
        };
        ensure!(
            strip(&a) == strip(&b),
            "c07-apply-options",
            "apply_from_error changed options other than Content-Format"
        );
        let want_code = u8::from(coap_lite::MessageClass::Response(code.unwrap()));
        ensure!(
            a.code == want_code,
            "c07-apply-code",
            "reply code {:#04x} after applying {code:?} ({want_code:#04x})",
            a.code
        );
        ensure!(
            a.payload == err_message.as_bytes(),
            "c07-apply-payload",
            "reply payload is {:?}, error message is {:?}",
            String::from_utf8_lossy(&a.payload),
            err_message
        );
    }
    let nt = !m.token.is_empty() || c.prepared.is_some();
    if nt {
        acc.nontrivial(fp(c));
    }
    if c.prepared.is_some() && before.response.is_some() {
        acc.class("prepopulated-response");
    }
    acc.sample("error", || json!({"code": format!("{code:?}"), "type": m.mtype, "message": c.message}));
    Ok(())
}

pub fn run(ctx: &Ctx, rep: &mut Report) {
    run_enum_chunks(
        ctx,
        rep,
        "type-x-version-x-tkl-x-message-id",
        "the complete product 4 types x 4 versions x token length 0..=8 x 65536 message ids (token bytes derived from the id; the request carries options and a payload that must not be echoed); non-trivial = non-empty token",
        true,
        4 * 4 * 9 * 4,
        |c| {
            let q = c % 4;
            let c = c / 4;
            let (t, v, tkl) = ((c / 36) as u8, ((c / 9) % 4) as u8, (c % 9) as u8);
            (q as u32 * 16384..(q as u32 + 1) * 16384).map(move |mid| Corr {
                mtype: t,
                version: v,
                tkl,
                mid: mid as u16,
            })
        },
        check_corr,
    );
    let n = ctx.cases(20_000, 4_000_000);
    run_prop(
        ctx,
        rep,
        "random-requests",
        "random request packets (any code, options with extended deltas/lengths, payload) -> CoapResponse::new / from_packet; non-trivial = non-empty token or content that must not be echoed",
        n,
        || msg_spec(5, 300, 300),
        |_ctx, s: &MsgSpec, acc| {
            let m = s.msg();
            if !m.token.is_empty() || !m.options.is_empty() || !m.payload.is_empty() {
                acc.nontrivial(fp(s));
            }
            if m.mtype >= 2 {
                acc.class("ack-or-reset-request");
            }
            acc.sample("request", || json!(s));
            check_response_for(&m, acc)
        },
    );
    // every value of a No-Response option (RFC 7967) on CON and NON requests:
    // the option asks the server not to SEND certain responses, preparing one
    // is unaffected
    let mut nr = Vec::new();
    for mtype in 0..4u8 {
        for v in 0..=257u16 {
            let value = match v {
                256 => vec![],
                257 => vec![0x1A, 0x00],
                x => vec![x as u8],
            };
            nr.push(MsgSpec {
                version: 1,
                mtype,
                token: vec![v as u8, 7],
                code: 0x01,
                mid: 0x7000 + v,
                options: vec![(11, Blob::Lit(b"r".to_vec())), (258, Blob::Lit(value))],
                payload: Blob::Lit(vec![]),
            });
        }
    }
    // CoAP ping and other bare requests
    for mtype in 0..4u8 {
        for code in [0u8, 1, 2, 0x45, 0xFF] {
            for tkl in [0usize, 1, 8] {
                nr.push(MsgSpec { version: 1, mtype, token: vec![3; tkl], code, mid: 1, options: vec![], payload: Blob::Lit(vec![]) });
            }
        }
    }
    run_list(
        ctx,
        rep,
        "no-response-option-values-and-bare-requests",
        "requests of all four types carrying a No-Response option with every one-byte value, the empty value and a two-byte value; bare requests (no token / options / payload) with codes 0.00, 0.01, 0.02, 2.05, 7.31",
        true,
        nr,
        |_ctx, s: &MsgSpec, acc| {
            acc.nontrivial_enum();
            check_response_for(&s.msg(), acc)
        },
    );
    let nstat = reg::statuses().len() as u8;
    let n = ctx.cases(100_000, 10_000_000);
    run_prop(
        ctx,
        rep,
        "apply-from-error",
        "every HandlingError shape (all constructors, every status and None) x random requests (all four types, so with and without a prepared response) x responses pre-populated with options, Content-Format and payload; non-trivial = token present or pre-populated response",
        n,
        move || {
            (
                msg_spec(3, 40, 40),
                prop_oneof![1 => Just(None), 6 => (0..=nstat).prop_map(Some)],
                any::<u8>(),
                // diagnostic texts from empty to longer than any datagram
                prop_oneof![
                    6 => "\\PC{0,20}",
                    1 => (1200usize..1400).prop_map(|n| "x".repeat(n)),
                    1 => (proptest::sample::select(vec![255usize, 256, 1023, 1024, 1270, 1275, 1280, 1281, 3000, 70000])).prop_map(|n| "é".repeat(n / 2)),
                ],
                proptest::option::of((
                    option_list(3, 30),
                    proptest::option::of(prop_oneof![Just(0u16), Just(50), Just(60), any::<u16>()]),
                    blob(30),
                    0..=nstat,
                )),
            )
                .prop_map(|(request, code, constructor, message, pre)| ErrCase {
                    response_removed: if constructor % 5 == 0 { 1 + (constructor / 5) % 2 } else { 0 },
                    request,
                    code,
                    constructor,
                    message,
                    prepared: pre.map(|(options, content_format, payload, status)| Prepared {
                        options,
                        content_format,
                        payload,
                        status,
                    }),
                })
        },
        check_err,
    );
}
