//! C08 — Block2: a client fetching blocks in order reassembles exactly the body.

use std::collections::HashSet;

use coap_lite::BlockHandler;
use proptest::prelude::*;
use serde::{Deserialize, Serialize};
use serde_json::json;

use crate::blockwise::*;
use crate::engine::*;
use crate::pkt::hex;
use crate::{ensure, fail};

#[derive(Clone, Debug, PartialEq, Eq, Hash, Serialize, Deserialize)]
pub struct Download {
    pub endpoint: u8,
    pub method: u8,
    pub path: Vec<Vec<u8>>,
    pub token_len: u8,
    pub con: bool,
    pub code: u8,
    pub options: Vec<(u16, Vec<u8>)>,
    pub body_len: usize,
    pub body_seed: u8,
    /// Block2 size exponent in the first request (early negotiation)
    pub first_szx: Option<u8>,
    /// after receiving block `k` (0-based count of received blocks), continue
    /// with this smaller size exponent
    pub reduce: Option<(usize, u8)>,
    /// stop after this many received blocks without finishing
    pub abandon_after: Option<usize>,
    /// plain requests on pairwise distinct other keys sent between two blocks,
    /// followed by block-wise downloads on up to seven look-alike keys
    #[serde(default)]
    pub foreign_between: u16,
}

#[derive(Clone, Debug, PartialEq, Eq, Hash, Serialize, Deserialize)]
pub struct Plan {
    pub budget: usize,
    pub transfers: Vec<Download>,
}

impl Download {
    pub fn app(&self) -> AppSpec {
        AppSpec {
            code: self.code,
            options: self.options.clone(),
            body: body(self.body_len, self.body_seed),
        }
    }
    pub fn request(&self, mid: u16, block2: Option<Vec<u8>>) -> ReqSpec {
        ReqSpec {
            mtype: if self.con { 0 } else { 1 },
            token: (0..self.token_len.min(8)).map(|i| (mid as u8).wrapping_add(i.wrapping_mul(17))).collect(),
            mid,
            method: self.method,
            path: self.path.clone(),
            extra: vec![],
            block1: None,
            block2,
            payload: vec![],
        }
    }
    /// Lowest budget inside the stated domain for this transfer.
    pub fn min_budget(&self) -> usize {
        let req = self.request(0, Some(block_bytes(0xFFFF, false, 6))).overhead();
        let resp = self.app().overhead(self.token_len as usize);
        req.max(resp) + 28
    }
    pub fn key(&self) -> (u8, u8, Vec<Vec<u8>>) {
        (self.endpoint, self.method, self.path.clone())
    }
}

#[derive(Default)]
pub struct Facts {
    pub blocks: usize,
    pub fragmented: bool,
    pub completed: bool,
}

/// Runs one download against `handler`.  `mid` is advanced per request.
pub fn run_download(
    handler: &mut BlockHandler<u8>,
    d: &Download,
    budget: usize,
    mid: &mut u16,
    force_no_block2: bool,
    acc: &mut Acc,
) -> Result<Facts, Fail> {
    let app = d.app();
    let want_options = app.sorted_options();
    let mut app_calls = 0usize;
    let mut received: Vec<u8> = Vec::new();
    let mut facts = Facts::default();
    let first_szx = if force_no_block2 { None } else { d.first_szx };
    let mut req_block2 = first_szx.map(|s| block_bytes(0, false, s));
    let mut first = true;
    let max_blocks = d.body_len / 16 + 4;
    loop {
        *mid = mid.wrapping_add(1);
        let req = d.request(*mid, req_block2.clone());
        let bytes = req.msg().encode().map_err(|e| Fail::new("harness", format!("request encode: {e:?}")))?;
        let mut calls_here = 0usize;
        let out = exchange(handler, &bytes, d.endpoint, &mut |_r| {
            calls_here += 1;
            Some(app.clone())
        });
        app_calls += calls_here;
        let ctx = format!(
            "budget {budget}, body {} bytes, first_szx {:?}, reduce {:?}, request Block2 {:?}, received so far {}",
            d.body_len,
            first_szx,
            d.reduce,
            req_block2.as_ref().and_then(|b| parse_block(b)),
            received.len()
        );
        if let Some(msg) = out.panicked() {
            fail!("c08-panic", "handler panicked ({ctx}): {msg}");
        }
        if let Some(t) = &out.trouble {
            fail!("c08-trouble", "{t} ({ctx})");
        }
        if let Step::Err(e) = &out.intercept_request {
            let sig = if d.body_len == 0 { "c08-empty-body-error" } else { "c08-handler-error" };
            fail!(sig, "intercept_request failed with {:?} {:?} ({ctx})", e.code, e.message);
        }
        if let Some(Step::Err(e)) = &out.intercept_response {
            let sig = if d.body_len == 0 { "c08-empty-body-error" } else { "c08-handler-error" };
            fail!(sig, "intercept_response failed with {:?} {:?} ({ctx})", e.code, e.message);
        }
        if first {
            ensure!(
                out.app_called && calls_here == 1,
                "c08-first-request-not-delivered",
                "the first request of a transfer did not reach the application ({ctx})"
            );
        } else {
            ensure!(
                out.served_by_handler() && calls_here == 0,
                "c08-followup-reached-application",
                "a follow-up block request was passed to the application instead of being served from the cache ({ctx})"
            );
        }
        let resp = match &out.response {
            Some(r) => r,
            None => fail!("c08-no-response", "no response produced ({ctx})"),
        };
        ensure!(
            resp.code == app.code,
            "c08-code",
            "block carries code {:#04x}, application set {:#04x} ({ctx})",
            resp.code,
            app.code
        );
        let others = opts_without(resp, &[OPT_BLOCK2]);
        ensure!(
            others == want_options,
            "c08-options-not-repeated",
            "block carries options {:?}, application set {:?} ({ctx})",
            others.iter().map(|(n, v)| format!("{n}:{}", hex(v))).collect::<Vec<_>>(),
            want_options.iter().map(|(n, v)| format!("{n}:{}", hex(v))).collect::<Vec<_>>()
        );
        match find_opt(resp, OPT_BLOCK2) {
            None => {
                ensure!(
                    first,
                    "c08-followup-without-block2",
                    "a follow-up response carries no Block2 option ({ctx})"
                );
                ensure!(
                    resp.payload == app.body,
                    "c08-unfragmented-body",
                    "a response without Block2 carries {} bytes, the body has {} ({ctx})",
                    resp.payload.len(),
                    app.body.len()
                );
                received = resp.payload.clone();
                facts.blocks = 1;
                break;
            }
            Some(raw) => {
                let blk = match parse_block(raw) {
                    Some(b) => b,
                    None => fail!("c08-block2-malformed", "Block2 option {} ({ctx})", hex(raw)),
                };
                let size = blk.size();
                ensure!(
                    blk.num as usize * size == received.len(),
                    "c08-block-number-vs-offset",
                    "block number {} x size {size} != {} bytes received so far ({ctx})",
                    blk.num,
                    received.len()
                );
                let remaining = app.body.len().saturating_sub(received.len());
                if blk.more {
                    ensure!(
                        resp.payload.len() == size,
                        "c08-nonfinal-block-size",
                        "non-final block {} carries {} bytes, block size is {size} ({ctx})",
                        blk.num,
                        resp.payload.len()
                    );
                    ensure!(
                        remaining > size,
                        "c08-more-flag",
                        "block {} has the more flag set but only {remaining} bytes remain (size {size}) ({ctx})",
                        blk.num
                    );
                } else {
                    ensure!(
                        resp.payload.len() == remaining,
                        "c08-final-block-size",
                        "final block {} carries {} bytes, {remaining} remain ({ctx})",
                        blk.num,
                        resp.payload.len()
                    );
                }
                received.extend_from_slice(&resp.payload);
                ensure!(
                    app.body.starts_with(&received),
                    "c08-block-content",
                    "block {} content differs from the body at offset {} ({ctx})",
                    blk.num,
                    received.len() - resp.payload.len()
                );
                facts.blocks += 1;
                if facts.blocks >= 2 || blk.more {
                    facts.fragmented = true;
                }
                if !blk.more {
                    break;
                }
                if Some(facts.blocks) == d.abandon_after {
                    ensure!(app_calls == 1, "c08-application-calls", "application consulted {app_calls} times ({ctx})");
                    return Ok(facts);
                }
                let mut next_szx = blk.szx;
                if let Some((k, new)) = d.reduce {
                    if facts.blocks > k && new < next_szx {
                        next_szx = new;
                    }
                }
                let next_size = 16usize << next_szx;
                req_block2 = Some(block_bytes((received.len() / next_size) as u32, false, next_szx));
                if d.foreign_between > 0 && facts.blocks == 1 {
                    // other clients talk to the server in the meantime
                    let small = AppSpec { code: 0x45, options: vec![], body: b"x".to_vec() };
                    for i in 0..d.foreign_between {
                        *mid = mid.wrapping_add(1);
                        let mut other = d.request(*mid, None);
                        other.path = vec![format!("f{i}").into_bytes()];
                        let out = exchange(handler, &other.msg().encode().unwrap(), 100 + (i % 50) as u8, &mut |_r| Some(small.clone()));
                        if let Some(msg) = out.panicked() {
                            fail!("c08-panic", "handler panicked on an unrelated request: {msg}");
                        }
                    }
                    // ... among them block-wise downloads on keys that look
                    // like this transfer's: another endpoint or method, the
                    // path with an empty segment added in front or behind,
                    // the segments joined into one, a prefix and an extension
                    let other_body = AppSpec { code: 0x45, options: vec![(4, vec![0xEE])], body: body(50, d.body_seed.wrapping_add(91)) };
                    let mut joined = d.path.join(&b'/');
                    if d.path.len() < 2 {
                        joined.extend_from_slice(b"/");
                    }
                    let mut behind = d.path.clone();
                    behind.push(vec![]);
                    let mut front = vec![vec![]];
                    front.extend(d.path.iter().cloned());
                    let mut longer = d.path.clone();
                    longer.push(b"r".to_vec());
                    let shorter: Vec<Vec<u8>> = d.path.iter().take(d.path.len().saturating_sub(1)).cloned().collect();
                    let lookalikes: Vec<(u8, u8, Vec<Vec<u8>>)> = vec![
                        (d.endpoint.wrapping_add(10), d.method, d.path.clone()),
                        (d.endpoint, if d.method == 3 { 4 } else { 3 }, d.path.clone()),
                        (d.endpoint, d.method, behind),
                        (d.endpoint, d.method, front),
                        (d.endpoint, d.method, vec![joined]),
                        (d.endpoint, d.method, longer),
                        (d.endpoint, d.method, shorter),
                    ];
                    for (j, (ep, method, path)) in lookalikes.into_iter().enumerate() {
                        if j as u16 >= d.foreign_between || (ep, method, &path) == (d.endpoint, d.method, &d.path) {
                            continue;
                        }
                        // fetched to its end, so that no unfinished transfer is
                        // left on a key a later transfer of the plan may use
                        for num in 0..8u32 {
                            *mid = mid.wrapping_add(1);
                            let mut other = d.request(*mid, Some(block_bytes(num, false, 0)));
                            other.method = method;
                            other.path = path.clone();
                            let out = exchange(handler, &other.msg().encode().unwrap(), ep, &mut |_r| Some(other_body.clone()));
                            if let Some(msg) = out.panicked() {
                                fail!("c08-panic", "handler panicked on a request for a look-alike key: {msg}");
                            }
                            let more = out
                                .response
                                .as_ref()
                                .and_then(|r| find_opt(r, OPT_BLOCK2))
                                .and_then(|x| parse_block(x))
                                .map(|b| b.more)
                                .unwrap_or(false);
                            if !more {
                                break;
                            }
                        }
                        acc.class("look-alike-key-download-between-blocks");
                    }
                }
            }
        }
        first = false;
        ensure!(
            facts.blocks <= max_blocks,
            "c08-no-progress",
            "transfer did not finish within {max_blocks} blocks ({ctx})"
        );
    }
    ensure!(
        received == app.body,
        "c08-reassembly",
        "reassembled {} bytes differ from the {}-byte body",
        received.len(),
        app.body.len()
    );
    ensure!(
        app_calls == 1,
        "c08-application-calls",
        "application consulted {app_calls} times during one transfer"
    );
    facts.completed = true;
    // The cache entry must be gone: a Block2 request now reaches the application.
    // (Not probed when an earlier abandoned transfer may still be cached for
    // this key and this transfer did not replace it: such a probe would be a
    // transfer starting with Block2 over an unfinished one, outside the domain.)
    if force_no_block2 && !facts.fragmented {
        return Ok(facts);
    }
    *mid = mid.wrapping_add(1);
    let probe = d.request(*mid, Some(block_bytes(0, false, 0)));
    let mut probe_calls = 0;
    let small = AppSpec { code: 0x45, options: vec![], body: b"small".to_vec() };
    let out = exchange(handler, &probe.msg().encode().unwrap(), d.endpoint, &mut |_r| {
        probe_calls += 1;
        Some(small.clone())
    });
    if let Some(msg) = out.panicked() {
        fail!("c08-panic", "handler panicked on the request after the transfer: {msg}");
    }
    ensure!(
        probe_calls == 1 && !out.served_by_handler(),
        "c08-cache-not-released",
        "after the final block was served, the next Block2 request on the same resource was answered from the cache instead of reaching the application (body {} bytes, budget {budget})",
        d.body_len
    );
    if let Some(r) = &out.response {
        ensure!(
            r.payload == b"small",
            "c08-cache-not-released",
            "the request after a completed transfer was answered with {} stale bytes",
            r.payload.len()
        );
    }
    let _ = acc;
    Ok(facts)
}

pub fn check_plan(_ctx: &Ctx, p: &Plan, acc: &mut Acc, enumerated: bool) -> Result<(), Fail> {
    let mut handler: BlockHandler<u8> = new_handler(p.budget, HOUR);
    let mut mid: u16 = 100;
    let mut unfinished: HashSet<(u8, u8, Vec<Vec<u8>>)> = HashSet::new();
    let mut nontrivial = false;
    for (i, d) in p.transfers.iter().enumerate() {
        if p.budget < d.min_budget() || p.budget > 1280 {
            acc.class("transfer-skipped-budget-outside-domain");
            continue;
        }
        let force = unfinished.contains(&d.key());
        if force && d.first_szx.is_some() {
            acc.class("early-negotiation-dropped-after-abandoned-transfer");
        }
        let facts = run_download(&mut handler, d, p.budget, &mut mid, force, acc)?;
        if facts.fragmented {
            if facts.completed {
                unfinished.remove(&d.key());
            } else {
                unfinished.insert(d.key());
            }
        }
        // classes
        if d.body_len == 0 {
            acc.class("empty-body");
        }
        if !facts.fragmented {
            acc.class("unfragmented");
        } else {
            nontrivial = true;
            let bs_guess = 16usize;
            let _ = bs_guess;
            acc.class("fragmented");
        }
        if d.first_szx.is_some() && !force {
            acc.class("early-negotiation");
        }
        if d.reduce.is_some() && facts.blocks > d.reduce.unwrap().0 + 1 {
            acc.class("mid-transfer-reduction");
        }
        if !facts.completed {
            acc.class("abandoned");
        }
        if i > 0 {
            acc.class("chained");
            if force {
                acc.class("chained-after-abandoned-same-key");
            }
        }
    }
    if nontrivial {
        if enumerated {
            acc.nontrivial_enum();
        } else {
            acc.nontrivial(fp(p));
        }
    }
    acc.sample("plan", || json!(p));
    Ok(())
}

pub fn response_options() -> BoxedStrategy<Vec<(u16, Vec<u8>)>> {
    let one = prop_oneof![
        3 => proptest::collection::vec(any::<u8>(), 1..=8).prop_map(|v| (4u16, v)),        // ETag
        3 => proptest::sample::select(vec![0u8, 40, 42, 50, 60]).prop_map(|c| (12u16, if c == 0 { vec![] } else { vec![c] })),
        2 => (0u32..100_000).prop_map(|v| (14u16, crate::props::c01::min_uint(v as u64))), // Max-Age
        2 => "[a-z]{1,8}".prop_map(|s| (8u16, s.into_bytes())),                            // Location-Path
        2 => (0u32..(1 << 24)).prop_map(|v| (6u16, crate::props::c01::min_uint(v as u64))), // Observe (notification)
        1 => "[a-z=]{1,8}".prop_map(|s| (20u16, s.into_bytes())),                          // Location-Query
        1 => (proptest::sample::select(vec![2048u16, 65000, 300, 21]), proptest::collection::vec(any::<u8>(), 0..20)).prop_map(|(n, v)| (n, v)),
        1 => (0u32..70_000).prop_map(|v| (28u16, crate::props::c01::min_uint(v as u64))),  // Size2
    ];
    proptest::collection::vec(one, 0..5).boxed()
}

pub fn path() -> BoxedStrategy<Vec<Vec<u8>>> {
    prop_oneof![
        3 => Just(vec![b"r".to_vec()]),
        2 => proptest::collection::vec("[a-z]{1,6}".prop_map(|s| s.into_bytes()), 0..4),
        1 => proptest::collection::vec("[a-z]{10,30}".prop_map(|s| s.into_bytes()), 1..3),
    ]
    .boxed()
}

pub fn body_len() -> BoxedStrategy<usize> {
    prop_oneof![
        2 => 0usize..=70,
        3 => (0usize..=6, proptest::sample::select(vec![16usize, 32, 64, 128, 256, 512, 1024]), -1i32..=1)
            .prop_map(|(k, bs, d)| ((k * bs) as i32 + d).max(0) as usize),
        2 => 0usize..=3000,
        1 => 3000usize..=20_000,
    ]
    .boxed()
}

fn download() -> BoxedStrategy<Download> {
    (
        (0u8..3, proptest::sample::select(vec![1u8, 1, 1, 2, 5]), path(), 0u8..=8, any::<bool>()),
        (proptest::sample::select(vec![0x45u8, 0x45, 0x44, 0x41, 0x84]), response_options(), body_len(), any::<u8>()),
        (
            proptest::option::weighted(0.4, 0u8..=6),
            proptest::option::weighted(0.3, (0usize..4, 0u8..=5)),
            proptest::option::weighted(0.15, 1usize..4),
            prop_oneof![12 => Just(0u16), 2 => 1u16..40, 1 => 500u16..1500],
        ),
    )
        .prop_map(|((endpoint, method, path, token_len, con), (code, options, body_len, body_seed), (first_szx, reduce, abandon_after, foreign_between))| Download {
            foreign_between,
            endpoint,
            method,
            path,
            token_len,
            con,
            code,
            options,
            body_len,
            body_seed,
            first_szx,
            reduce,
            abandon_after,
        })
        .boxed()
}

fn plan() -> BoxedStrategy<Plan> {
    (
        proptest::collection::vec(download(), 1..=3),
        0u8..8,
        any::<u16>(),
        0u8..4,
    )
        .prop_map(|(mut transfers, kind, r, key_mode)| {
            let same_key = key_mode == 0;
            if key_mode == 1 && transfers.len() > 1 && !transfers[0].path.is_empty() {
                // same endpoint and method, and a path that is the other one
                // written as a single segment ("a/b" vs a, b): a different key
                let k = transfers[0].clone();
                if k.path.len() == 1 {
                    transfers[0].path = vec![k.path[0].clone(), b"v1".to_vec()];
                }
                let joined = transfers[0].path.join(&b'/');
                transfers[1].endpoint = k.endpoint;
                transfers[1].method = k.method;
                transfers[1].path = vec![joined];
            }
            if same_key {
                let k = transfers[0].clone();
                for (i, t) in transfers.iter_mut().enumerate().skip(1) {
                    t.endpoint = k.endpoint;
                    t.method = k.method;
                    t.path = k.path.clone();
                    if (r as usize + i) % 3 == 0 {
                        // the resource changed its content but not its length,
                        // code or options (body_seed differs)
                        t.body_len = k.body_len;
                        t.code = k.code;
                        t.options = k.options.clone();
                        if t.body_seed == k.body_seed {
                            t.body_seed = k.body_seed.wrapping_add(1);
                        }
                    }
                }
            }
            let lo = transfers.iter().map(|t| t.min_budget()).max().unwrap();
            let resp0 = transfers[0].app().overhead(transfers[0].token_len as usize);
            let hi = 1280usize;
            let budget = if lo >= hi {
                lo
            } else {
                match kind {
                    0 => lo,
                    1 => lo + (r as usize % 4),
                    2 => hi,
                    3 | 4 => {
                        // around resp overhead + 12 + 2^k
                        let k = 4 + (r as usize % 7);
                        let b = resp0 + 12 + (1usize << k) + (r as usize / 7 % 7);
                        b.saturating_sub(3).clamp(lo, hi)
                    }
                    _ => lo + r as usize % (hi - lo + 1),
                }
            };
            Plan { budget, transfers }
        })
        .boxed()
}

pub fn run(ctx: &Ctx, rep: &mut Report) {
    rep.assume("calling protocol of the in-crate TestServerHarness: intercept_request; Ok(true) -> send; Ok(false) -> application, intercept_response, send; Err -> apply_from_error");
    rep.assume("budgets between max(request overhead, response overhead) + 28 and 1280; a transfer after an abandoned one on the same key starts without Block2 (as the quantifier restricts)");
    // exhaustive body lengths around block multiples for small block sizes
    let mut cases = Vec::new();
    for bs_szx in 0u8..=2 {
        let bs = 16usize << bs_szx;
        for len in 0..=3 * bs + 1 {
            for strat in 0..4u8 {
                let d = Download {
                    endpoint: 1,
                    method: 1,
                    path: vec![b"r".to_vec()],
                    token_len: 2,
                    con: true,
                    code: 0x45,
                    options: vec![(4, vec![1, 2, 3, 4, 5, 6, 7, 8]), (6, vec![len as u8 | 1]), (12, vec![42]), (14, vec![60])],
                    body_len: len,
                    body_seed: len as u8,
                    first_szx: match strat {
                        0 => None,
                        1 => Some(bs_szx),
                        2 => Some(6),
                        _ => Some(0),
                    },
                    reduce: if strat == 0 && bs_szx > 0 { Some((0, 0)) } else { None },
                    abandon_after: None,
                    foreign_between: 0,
                };
                let budget = d.app().overhead(2) + 12 + bs;
                cases.push(Plan { budget, transfers: vec![d] });
            }
        }
    }
    run_list(
        ctx,
        rep,
        "every-body-length-around-block-multiples",
        "block sizes 16/32/64 (budget = response overhead + 12 + size): every body length 0..=3*size+1 x client strategy {no Block2 (with mid-transfer reduction to 16), early negotiation at the same size, at 1024, at 16}; non-trivial = fragmented transfer (>= 2 blocks)",
        true,
        cases,
        |ctx, p: &Plan, acc| check_plan(ctx, p, acc, true),
    );
    let n = ctx.cases(40_000, 5_000_000);
    run_prop(
        ctx,
        rep,
        "random-transfer-plans",
        "random plans of 1..=3 chained downloads on one handler (bodies 0..20000 biased to block multiples, response option sets, methods, paths, token 0..=8, CON/NON, budgets on the domain's edges and around overhead+12+2^k, client strategies none / early szx 0..=6 / mid-transfer reduction, abandonment); distinct by plan hash",
        n,
        plan,
        |ctx, p: &Plan, acc| check_plan(ctx, p, acc, false),
    );
}
