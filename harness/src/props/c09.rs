//! C09 — Block1: uploaded blocks are reassembled into exactly the body sent.

use coap_lite::BlockHandler;
use proptest::prelude::*;
use serde::{Deserialize, Serialize};
use serde_json::json;

use crate::blockwise::*;
use crate::engine::*;
use crate::pkt::hex;
use crate::{ensure, fail};

#[derive(Clone, Debug, PartialEq, Eq, Hash, Serialize, Deserialize)]
pub struct Abandoned {
    pub body_len: usize,
    pub body_seed: u8,
    pub szx: u8,
    /// number of non-final blocks delivered before giving up
    pub blocks: usize,
}

#[derive(Clone, Debug, PartialEq, Eq, Hash, Serialize, Deserialize)]
pub struct Upload {
    pub endpoint: u8,
    pub method: u8,
    pub path: Vec<Vec<u8>>,
    pub token_len: u8,
    pub con: bool,
    pub szx: u8,
    pub body_len: usize,
    pub body_seed: u8,
    /// consecutive delivery counts, cycled over the non-final blocks
    pub dups: Vec<u8>,
    /// consecutive deliveries of the final block (1 = no duplicate)
    pub final_deliveries: u8,
    pub abandoned: Option<Abandoned>,
    pub reply_code: u8,
    pub reply_body: Vec<u8>,
    /// repeated deliveries are true retransmissions (same message id and
    /// token) instead of fresh requests
    #[serde(default)]
    pub retransmit: bool,
    /// the upload's first message id; the abandoned predecessor starts at the
    /// same id (a client that restarted)
    #[serde(default)]
    pub mid_base: Option<u16>,
}

#[derive(Clone, Debug, PartialEq, Eq, Hash, Serialize, Deserialize)]
pub struct Plan {
    pub budget: usize,
    pub uploads: Vec<Upload>,
}

impl Upload {
    pub fn request(&self, mid: u16, block1: Option<Vec<u8>>, payload: Vec<u8>) -> ReqSpec {
        ReqSpec {
            mtype: if self.con { 0 } else { 1 },
            token: (0..self.token_len.min(8)).map(|i| (mid as u8).wrapping_mul(3).wrapping_add(i)).collect(),
            mid,
            method: self.method,
            path: self.path.clone(),
            extra: vec![],
            block1,
            block2: None,
            payload,
        }
    }
    pub fn size(&self) -> usize {
        16usize << self.szx
    }
    pub fn min_budget(&self) -> usize {
        let mut sz = self.size();
        if let Some(a) = &self.abandoned {
            sz = sz.max(16usize << a.szx);
        }
        let req = self.request(0, Some(block_bytes(0xFFFF, true, 6)), vec![]).overhead();
        let reply = AppSpec { code: self.reply_code, options: vec![], body: self.reply_body.clone() };
        // room for the client's block, and for the (small) reply plus its Block1 option
        (req + 12 + sz).max(reply.overhead(self.token_len as usize) + 5 + 28 + self.reply_body.len())
    }
}

#[derive(Default)]
pub struct Facts {
    pub blocks: usize,
    pub had_duplicate: bool,
    pub had_abandoned: bool,
}

fn deliver(
    handler: &mut BlockHandler<u8>,
    u: &Upload,
    mid: &mut u16,
    block: Option<(u32, bool, u8)>,
    payload: &[u8],
    reply: &AppSpec,
    same_mid: bool,
) -> (Outcome, usize) {
    if !same_mid {
        *mid = mid.wrapping_add(1);
    }
    let req = u.request(*mid, block.map(|(n, m, s)| block_bytes(n, m, s)), payload.to_vec());
    let mut calls = 0;
    let out = exchange(handler, &req.msg().encode().unwrap(), u.endpoint, &mut |_r| {
        calls += 1;
        Some(reply.clone())
    });
    (out, calls)
}

pub fn run_upload(handler: &mut BlockHandler<u8>, u: &Upload, budget: usize, mid: &mut u16) -> Result<Facts, Fail> {
    let mut facts = Facts::default();
    let reply = AppSpec { code: u.reply_code, options: vec![], body: u.reply_body.clone() };
    if let Some(b) = u.mid_base {
        *mid = b;
    }
    // an earlier upload to the same resource, abandoned midway
    if let Some(a) = &u.abandoned {
        let old = body(a.body_len, a.body_seed ^ 0x55);
        let sz = 16usize << a.szx;
        let chunks: Vec<&[u8]> = old.chunks(sz).collect();
        // only non-final blocks are delivered
        let n = a.blocks.min(chunks.len().saturating_sub(1));
        for (i, c) in chunks.iter().take(n).enumerate() {
            let (out, calls) = deliver(handler, u, mid, Some((i as u32, true, a.szx)), c, &reply, false);
            if let Some(msg) = out.panicked() {
                fail!("c09-panic", "handler panicked during the abandoned upload: {msg}");
            }
            ensure!(
                calls == 0 && out.served_by_handler(),
                "c09-nonfinal-reached-application",
                "a non-final block of the (later abandoned) upload was not answered by the handler"
            );
        }
        if n > 0 {
            facts.had_abandoned = true;
        }
    }
    if let Some(b) = u.mid_base {
        // the new upload counts its message ids from the same base again
        *mid = b;
    }
    let data = body(u.body_len, u.body_seed);
    let size = u.size();
    let mut chunks: Vec<&[u8]> = data.chunks(size).collect();
    if chunks.is_empty() {
        chunks.push(&[]);
    }
    let last = chunks.len() - 1;
    let mut app_calls = 0usize;
    for (i, c) in chunks.iter().enumerate() {
        let is_final = i == last;
        let deliveries = if is_final {
            u.final_deliveries.max(1)
        } else if u.dups.is_empty() {
            1
        } else {
            u.dups[i % u.dups.len()].clamp(1, 3)
        };
        for k in 0..deliveries {
            if k > 0 {
                facts.had_duplicate = true;
            }
            let (out, calls) = deliver(handler, u, mid, Some((i as u32, !is_final, u.szx)), c, &reply, k > 0 && u.retransmit);
            let ctx = format!(
                "budget {budget}, body {} bytes, block size {size}, block {i}{} delivery {}, abandoned predecessor {:?}",
                u.body_len,
                if is_final { " (final)" } else { "" },
                k + 1,
                u.abandoned
            );
            if let Some(msg) = out.panicked() {
                fail!("c09-panic", "handler panicked ({ctx}): {msg}");
            }
            if let Some(t) = &out.trouble {
                fail!("c09-trouble", "{t} ({ctx})");
            }
            if let Step::Err(e) = &out.intercept_request {
                fail!("c09-handler-error", "intercept_request failed with {:?} {:?} ({ctx})", e.code, e.message);
            }
            if let Some(Step::Err(e)) = &out.intercept_response {
                fail!("c09-handler-error", "intercept_response failed with {:?} {:?} ({ctx})", e.code, e.message);
            }
            let resp = match &out.response {
                Some(r) => r,
                None => fail!("c09-no-response", "no response ({ctx})"),
            };
            if !is_final {
                ensure!(
                    calls == 0 && out.served_by_handler(),
                    "c09-nonfinal-reached-application",
                    "a non-final block reached the application ({ctx})"
                );
                ensure!(
                    resp.code == 0x5F,
                    "c09-continue-code",
                    "non-final block answered with code {:#04x}, expected 2.31 Continue ({ctx})",
                    resp.code
                );
                let b1 = find_opt(resp, OPT_BLOCK1).and_then(|b| parse_block(b));
                match b1 {
                    None => fail!("c09-continue-without-block1", "2.31 response carries no valid Block1 option ({ctx})"),
                    Some(b) => {
                        ensure!(
                            b.num == i as u32,
                            "c09-block1-echo-number",
                            "2.31 response echoes block number {}, block {i} was sent ({ctx})",
                            b.num
                        );
                        ensure!(
                            b.szx <= u.szx,
                            "c09-block1-echo-size",
                            "2.31 response asks for size exponent {} above the client's {} ({ctx})",
                            b.szx,
                            u.szx
                        );
                    }
                }
            } else if k == 0 {
                ensure!(
                    calls == 1 && !out.served_by_handler(),
                    "c09-final-not-delivered",
                    "the final block did not reach the application ({ctx})"
                );
                app_calls += calls;
                let saw = out.app_saw.clone().unwrap_or_default();
                if saw != data {
                    let sig = if saw.len() > data.len() && saw.starts_with(&data) {
                        "c09-stale-tail"
                    } else if saw.len() == data.len() {
                        "c09-body-content"
                    } else {
                        "c09-body-length"
                    };
                    let firstdiff = saw.iter().zip(data.iter()).position(|(a, b)| a != b);
                    fail!(
                        sig,
                        "the application received {} bytes, the client sent {} (first difference at {:?}; tail {}) ({ctx})",
                        saw.len(),
                        data.len(),
                        firstdiff,
                        hex(&saw[data.len().min(saw.len())..])
                    );
                }
                ensure!(
                    out.app_saw_response_options.as_ref().map(|o| o.iter().any(|x| x.0 == OPT_BLOCK1)).unwrap_or(false),
                    "c09-final-ack-missing",
                    "the response prepared for the final block carries no Block1 option when the application runs ({ctx})"
                );
                ensure!(
                    find_opt(resp, OPT_BLOCK1).and_then(|b| parse_block(b)).is_some(),
                    "c09-final-ack-missing",
                    "the response to the final block carries no Block1 acknowledgement ({ctx})"
                );
                ensure!(
                    resp.code == u.reply_code && resp.payload == u.reply_body,
                    "c09-final-response",
                    "the response to the final block is not the application's reply ({ctx})"
                );
            } else {
                // a repeated delivery of the final block
                app_calls += calls;
                ensure!(
                    calls == 0,
                    "c09-final-duplicate-redelivered",
                    "a repeated delivery of the final block reached the application again, with a body of {} bytes (sent {}) ({ctx})",
                    out.app_saw.as_ref().map(|b| b.len()).unwrap_or(0),
                    data.len()
                );
            }
        }
    }
    ensure!(
        app_calls == 1,
        "c09-application-calls",
        "the application was called {app_calls} times for one upload"
    );
    facts.blocks = chunks.len();
    Ok(facts)
}

pub fn check_plan(_ctx: &Ctx, p: &Plan, acc: &mut Acc, enumerated: bool) -> Result<(), Fail> {
    let mut handler: BlockHandler<u8> = new_handler(p.budget, HOUR);
    let mut mid = 7u16;
    let mut nontrivial = false;
    for u in &p.uploads {
        if p.budget < u.min_budget() || p.budget > 1280 {
            acc.class("upload-skipped-budget-outside-domain");
            continue;
        }
        let f = run_upload(&mut handler, u, p.budget, &mut mid)?;
        if f.blocks >= 2 && (f.had_duplicate || f.had_abandoned) {
            nontrivial = true;
        }
        if f.blocks >= 2 {
            acc.class("multi-block");
        } else {
            acc.class("single-block");
        }
        if f.had_duplicate {
            acc.class("duplicate-of-nonfinal");
        }
        if u.final_deliveries > 1 {
            acc.class("duplicate-of-final");
        }
        if f.had_abandoned {
            let a = u.abandoned.as_ref().unwrap();
            let old_len = (a.blocks * (16usize << a.szx)).min(a.body_len);
            if old_len > u.body_len {
                acc.class("abandoned-longer");
            } else {
                acc.class("abandoned-shorter");
            }
        }
        if u.body_len == 0 {
            acc.class("empty-body");
        }
        if u.body_len > 0 && u.body_len % u.size() == 0 {
            acc.class("exact-multiple");
        }
    }
    if nontrivial {
        if enumerated {
            acc.nontrivial_enum();
        } else {
            acc.nontrivial(fp(p));
        }
    }
    acc.sample("plan", || json!(p));
    Ok(())
}

#[derive(Clone, Debug, PartialEq, Eq, Hash, Serialize, Deserialize)]
pub struct Plain {
    pub budget: usize,
    pub method: u8,
    pub path: Vec<Vec<u8>>,
    pub token_len: u8,
    pub con: bool,
    pub extra: Vec<(u16, Vec<u8>)>,
    pub payload_len: usize,
}

/// A request without Block1 and a payload around the budget.
pub fn check_plain(_ctx: &Ctx, c: &Plain, acc: &mut Acc) -> Result<(), Fail> {
    let req = ReqSpec {
        mtype: if c.con { 0 } else { 1 },
        token: vec![0x77; c.token_len.min(8) as usize],
        mid: 99,
        method: c.method,
        path: c.path.clone(),
        extra: c.extra.clone(),
        block1: None,
        block2: None,
        payload: body(c.payload_len, 3),
    };
    let overhead = req.overhead();
    if c.budget < overhead + 28 {
        acc.class("skipped-budget-outside-domain");
        return Ok(());
    }
    let mut handler: BlockHandler<u8> = new_handler(c.budget, HOUR);
    let mut calls = 0;
    let reply = AppSpec { code: 0x44, options: vec![], body: vec![] };
    let out = exchange(&mut handler, &req.msg().encode().unwrap(), 1, &mut |_r| {
        calls += 1;
        Some(reply.clone())
    });
    let ctx = format!("budget {}, overhead {overhead}, payload {}", c.budget, c.payload_len);
    if let Some(msg) = out.panicked() {
        fail!("c09-panic", "handler panicked ({ctx}): {msg}");
    }
    let too_large = overhead + 1 + c.payload_len > c.budget;
    let fits_with_slack = overhead + 12 + c.payload_len < c.budget;
    let refused = out.served_by_handler() && out.response.as_ref().map(|r| r.code) == Some(0x8D);
    if refused {
        acc.class("answered-4.13");
        let r = out.response.as_ref().unwrap();
        ensure!(
            find_opt(r, OPT_BLOCK1).and_then(|b| parse_block(b)).is_some(),
            "c09-413-without-hint",
            "4.13 response carries no Block1 size hint ({ctx})"
        );
        ensure!(calls == 0, "c09-413-but-processed", "request answered 4.13 but also passed to the application ({ctx})");
    } else {
        acc.class("processed");
    }
    if too_large {
        acc.class("must-refuse");
        ensure!(
            refused,
            "c09-oversized-request-processed",
            "a request of {} encoded bytes exceeds the budget but was not answered 4.13 (intercept_request: {:?}) ({ctx})",
            overhead + 1 + c.payload_len,
            out.intercept_request
        );
    } else if fits_with_slack {
        acc.class("must-process");
        ensure!(
            calls == 1 && matches!(out.intercept_request, Step::Ok(false)),
            "c09-fitting-request-refused",
            "a request that fits the budget with more than 12 bytes to spare was not passed to the application (intercept_request: {:?}) ({ctx})",
            out.intercept_request
        );
        ensure!(
            out.app_saw.as_deref() == Some(&req.payload[..]),
            "c09-plain-payload",
            "the application saw a different payload than was sent ({ctx})"
        );
    } else {
        acc.class("either-zone");
        ensure!(
            refused || calls == 1,
            "c09-neither-refused-nor-processed",
            "request neither answered 4.13 nor processed: {:?} ({ctx})",
            out.intercept_request
        );
    }
    if !fits_with_slack {
        acc.nontrivial(fp(c));
    }
    acc.sample("plain", || json!(c));
    Ok(())
}

fn upload() -> BoxedStrategy<Upload> {
    (
        (0u8..3, proptest::sample::select(vec![3u8, 2, 3, 5]), crate::props::c08::path(), 0u8..=8, any::<bool>()),
        (0u8..=6, any::<u8>(), proptest::collection::vec(1u8..=3, 0..4)),
        (0usize..=8, -1i32..=1, proptest::option::weighted(0.15, 0usize..=5000)),
        proptest::option::weighted(
            0.45,
            (0usize..=12, any::<u8>(), 0u8..=6, 1usize..=6, -1i32..=1),
        ),
        (proptest::sample::select(vec![0x44u8, 0x41, 0x45]), proptest::collection::vec(any::<u8>(), 0..6)),
    )
        .prop_map(|((endpoint, method, path, token_len, con), (szx, body_seed, dups), (k, d, free_len), ab, (reply_code, reply_body))| {
            let size = 16usize << szx;
            let body_len = free_len.unwrap_or(((k * size) as i32 + d).max(0) as usize).min(5000);
            Upload {
                endpoint,
                method,
                path,
                token_len,
                con,
                szx,
                body_len,
                body_seed,
                dups,
                final_deliveries: 1,
                abandoned: ab.map(|(k, seed, aszx, blocks, d)| Abandoned {
                    body_len: (((k * (16usize << aszx)) as i32 + d).max(0) as usize).min(8000),
                    body_seed: seed,
                    szx: aszx,
                    blocks,
                }),
                reply_code,
                reply_body,
                retransmit: body_seed % 2 == 0,
                mid_base: if body_seed % 3 == 0 { Some(body_seed as u16 * 257) } else { None },
            }
        })
        .boxed()
}

fn plan() -> BoxedStrategy<Plan> {
    (proptest::collection::vec(upload(), 1..=2), 0u8..7, any::<u16>(), any::<bool>())
        .prop_map(|(mut uploads, kind, r, same_key)| {
            if same_key && uploads.len() > 1 {
                let k = uploads[0].clone();
                uploads[1].endpoint = k.endpoint;
                uploads[1].method = k.method;
                uploads[1].path = k.path.clone();
            }
            let lo = uploads.iter().map(|u| u.min_budget()).max().unwrap();
            let hi = 1280usize;
            let budget = if lo >= hi {
                lo
            } else {
                match kind {
                    0 => lo,
                    1 => lo + r as usize % 4,
                    2 => hi,
                    // the statement does not bound the budget from above
                    6 => hi + 1 + (r as usize * 3) % 4000,
                    _ => lo + r as usize % (hi - lo + 1),
                }
            };
            Plan { budget, uploads }
        })
        .boxed()
}

pub fn run(ctx: &Ctx, rep: &mut Report) {
    rep.assume("calling protocol of the in-crate TestServerHarness; CON/NON requests; budgets that admit the client's block size (request overhead + 12 + block size), mostly up to 1280, some up to 5280");
    rep.assume("the M bit of the echoed Block1 option, and the echoed number under size re-negotiation, are not constrained by the statement and not asserted");
    // directed: every body length around block multiples, with an abandoned longer predecessor
    let mut cases = Vec::new();
    for szx in 0u8..=2 {
        let size = 16usize << szx;
        for len in 0..=3 * size + 1 {
            for variant in 0..4u8 {
                let u = Upload {
                    endpoint: 0,
                    method: 3,
                    path: vec![b"up".to_vec()],
                    token_len: 1,
                    con: true,
                    szx,
                    body_len: len,
                    body_seed: len as u8,
                    dups: match variant {
                        1 => vec![2],
                        3 => vec![1, 3],
                        _ => vec![],
                    },
                    final_deliveries: 1,
                    abandoned: match variant {
                        2 => Some(Abandoned { body_len: 6 * size + 5, body_seed: 9, szx, blocks: 5 }),
                        3 => Some(Abandoned { body_len: 300, body_seed: 4, szx: 2, blocks: 2 }),
                        _ => None,
                    },
                    reply_code: 0x44,
                    reply_body: vec![],
                    retransmit: variant == 3,
                    mid_base: if variant >= 2 { Some(4000) } else { None },
                };
                let budget = u.min_budget().max(60);
                cases.push(Plan { budget, uploads: vec![u] });
            }
        }
    }
    run_list(
        ctx,
        rep,
        "every-body-length-around-block-multiples",
        "block sizes 16/32/64: every body length 0..=3*size+1 x {plain, every non-final block delivered twice, after a longer abandoned upload of 5 blocks, duplicates + abandoned upload with another block size}; non-trivial = >= 2 blocks with a duplicate or an abandoned predecessor",
        true,
        cases,
        |ctx, p: &Plan, acc| check_plan(ctx, p, acc, true),
    );
    let n = ctx.cases(40_000, 5_000_000);
    run_prop(
        ctx,
        rep,
        "random-upload-plans",
        "random plans of 1..=2 uploads on one handler (bodies 0..5000 around block multiples, szx 0..=6, per-block delivery counts 1..=3, abandoned predecessor of 1..=6 non-final blocks of another body and block size, PUT/POST/FETCH, paths, tokens, CON/NON, budgets from the lowest admitting the block size up to 1280, a seventh of the plans up to 5280); the final block is delivered once (repeated final delivery is the excluded known finding); distinct by plan hash",
        n,
        plan,
        |ctx, p: &Plan, acc| check_plan(ctx, p, acc, false),
    );
    // the known finding, reproduced by directed cases
    let mut dup_final = Vec::new();
    for (len, szx) in [(40usize, 0u8), (16, 0), (100, 1), (5, 0), (0, 0), (2048, 6)] {
        let u = Upload {
            endpoint: 0,
            method: 3,
            path: vec![b"up".to_vec()],
            token_len: 2,
            con: true,
            szx,
            body_len: len,
            body_seed: 1,
            dups: vec![],
            final_deliveries: 2,
            abandoned: None,
            reply_code: 0x44,
            reply_body: vec![],
            retransmit: len % 2 == 0,
            mid_base: None,
        };
        let budget = u.min_budget().max(60);
        dup_final.push(Plan { budget, uploads: vec![u] });
    }
    run_list(
        ctx,
        rep,
        "final-block-delivered-twice",
        "directed: the final block delivered twice in a row (single-block, multi-block and empty bodies); the application must be reached exactly once",
        false,
        dup_final,
        |ctx, p: &Plan, acc| {
            acc.class("excluded-from-main-search: repeated delivery of the final block");
            check_plan(ctx, p, acc, true)
        },
    );
    let n = ctx.cases(60_000, 5_000_000);
    run_prop(
        ctx,
        rep,
        "requests-without-block1-around-the-budget",
        "requests without a Block1 option whose payload puts the encoded size just below / at / above the budget: larger than the budget -> 4.13 with a Block1 hint and not processed; fitting with more than 12 bytes to spare -> processed unchanged; in between either; budgets up to 1280 and, in a fifth of the cases, up to 5000 bytes (bodies up to 5000); non-trivial = not in the comfortable zone",
        n,
        || {
            (
                proptest::sample::select(vec![3u8, 2, 1, 4]),
                crate::props::c08::path(),
                0u8..=8,
                any::<bool>(),
                proptest::collection::vec(
                    (proptest::sample::select(vec![12u16, 17, 60, 2048]), proptest::collection::vec(any::<u8>(), 0..12)),
                    0..3,
                ),
                prop_oneof![Just(0u8), Just(1), Just(2), Just(3), Just(4)],
                0usize..1200,
                -16i32..=16,
                any::<u16>(),
            )
                .prop_map(|(method, path, token_len, con, extra, mode, plen, off, r)| {
                    let probe = ReqSpec {
                        mtype: 0,
                        token: vec![0; token_len as usize],
                        mid: 0,
                        method,
                        path: path.clone(),
                        extra: extra.clone(),
                        block1: None,
                        block2: None,
                        payload: vec![],
                    };
                    let overhead = probe.overhead();
                    let (budget, payload_len) = match mode {
                        // budget fixed, payload lands around budget - overhead
                        0 => {
                            let budget = (overhead + 28 + r as usize % 1200).min(1280).max(overhead + 28);
                            let p = (budget as i32 - overhead as i32 - 6 + off).max(0) as usize;
                            (budget, p)
                        }
                        1 => {
                            let budget = overhead + 28 + (r as usize % 64);
                            (budget, plen % 200)
                        }
                        // budgets above 1280 bytes (the statement does not bound
                        // them; bodies go up to 5000 bytes): payload around the budget
                        4 => {
                            let budget = (1281 + (r as usize * 7) % 3740).min(5000 + overhead - 20);
                            let p = (budget as i32 - overhead as i32 - 6 + off).clamp(0, 5000) as usize;
                            (budget, p)
                        }
                        // requests larger than any permitted message (over 1280 bytes)
                        3 => ((overhead + 28 + r as usize % 1300).min(1280).max(overhead + 28), 1200 + plen % 900),
                        _ => ((overhead + 28 + r as usize % 1300).min(1280).max(overhead + 28), plen),
                    };
                    Plain { budget, method, path, token_len, con, extra, payload_len }
                })
        },
        check_plain,
    );
}
