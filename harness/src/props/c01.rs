//! C01 — encode is the exact RFC 7252 wire image and decodes back unchanged.

use std::collections::BTreeMap;

use coap_lite::option_value::OptionValueU32;
use coap_lite::{CoapOption, MessageClass, Packet, RequestType, ResponseType};
use proptest::prelude::*;
use serde::{Deserialize, Serialize};
use serde_json::json;

use crate::engine::*;
use crate::gen::wire::*;
use crate::pkt::*;
use crate::refmodel::wire::{EncErr, Msg};
use crate::{ensure, fail};

pub const MAX_SIZE: usize = if cfg!(feature = "udp") { 64_000 } else { 1280 };

#[derive(Clone, Debug, PartialEq, Eq, Hash, Serialize, Deserialize)]
pub enum Op {
    Version(u8),
    Type(u8),
    Token(Vec<u8>),
    CodeByte(u8),
    CodeStr(u8),
    CodeReqUnknown,
    CodeRespUnknown,
    Mid(u16),
    Add(u16, Blob),
    AddU32(u16, u32),
    Set(u16, Vec<Blob>),
    Clear(u16),
    ClearAll,
    Payload(Blob),
}

#[derive(Clone, Debug, PartialEq, Eq, Hash, Serialize, Deserialize)]
pub struct Script {
    pub ops: Vec<Op>,
}

/// Trivial model of a message under construction.
#[derive(Default)]
pub struct Model {
    version: u8,
    mtype: u8,
    token: Vec<u8>,
    code: u8,
    mid: u16,
    options: BTreeMap<u16, Vec<Vec<u8>>>,
    payload: Vec<u8>,
}

pub fn min_uint(v: u64) -> Vec<u8> {
    let b = v.to_be_bytes();
    let skip = b.iter().take_while(|x| **x == 0).count();
    b[skip..].to_vec()
}

impl Model {
    pub fn new() -> Model {
        // Documented defaults of a new packet: version 1, CON, GET, id 0.
        Model {
            version: 1,
            mtype: 0,
            code: 1,
            ..Default::default()
        }
    }
    pub fn apply(&mut self, op: &Op) {
        match op {
            Op::Version(v) => self.version = v & 3,
            Op::Type(t) => self.mtype = t & 3,
            Op::Token(t) => self.token = t.clone(),
            Op::CodeByte(c) | Op::CodeStr(c) => self.code = *c,
            Op::CodeReqUnknown | Op::CodeRespUnknown => self.code = 0xFF,
            Op::Mid(m) => self.mid = *m,
            Op::Add(n, b) => {
                self.options.entry(*n).or_default().push(b.bytes())
            }
            Op::AddU32(n, v) => self
                .options
                .entry(*n)
                .or_default()
                .push(min_uint(*v as u64)),
            Op::Set(n, l) => {
                self.options
                    .insert(*n, l.iter().map(|b| b.bytes()).collect());
            }
            Op::Clear(n) => {
                if let Some(l) = self.options.get_mut(n) {
                    l.clear()
                }
            }
            Op::ClearAll => self.options.clear(),
            Op::Payload(b) => self.payload = b.bytes(),
        }
    }
    pub fn msg(&self) -> Msg {
        let mut options = Vec::new();
        for (n, l) in &self.options {
            for v in l {
                options.push((*n, v.clone()));
            }
        }
        Msg {
            version: self.version,
            mtype: self.mtype,
            token: self.token.clone(),
            code: self.code,
            mid: self.mid,
            options,
            payload: self.payload.clone(),
        }
    }
}

pub fn apply_to_packet(p: &mut Packet, op: &Op) {
    match op {
        Op::Version(v) => p.header.set_version(v & 3),
        Op::Type(t) => p.header.set_type(mtype_from(*t)),
        Op::Token(t) => p.set_token(t.clone()),
        Op::CodeByte(c) => p.header.code = MessageClass::from(*c),
        Op::CodeStr(c) => {
            p.header.set_code(&format!("{}.{:02}", c >> 5, c & 31))
        }
        Op::CodeReqUnknown => {
            p.header.code = MessageClass::Request(RequestType::UnKnown)
        }
        Op::CodeRespUnknown => {
            p.header.code = MessageClass::Response(ResponseType::UnKnown)
        }
        Op::Mid(m) => p.header.message_id = *m,
        Op::Add(n, b) => p.add_option(CoapOption::from(*n), b.bytes()),
        Op::AddU32(n, v) => {
            p.add_option_as(CoapOption::from(*n), OptionValueU32(*v))
        }
        Op::Set(n, l) => p.set_option(
            CoapOption::from(*n),
            l.iter().map(|b| b.bytes()).collect(),
        ),
        Op::Clear(n) => p.clear_option(CoapOption::from(*n)),
        Op::ClearAll => p.clear_all_options(),
        Op::Payload(b) => p.payload = b.bytes(),
    }
}

pub fn script_from_spec(spec: &MsgSpec) -> Vec<Op> {
    let mut ops = vec![
        Op::Version(spec.version),
        Op::Type(spec.mtype),
        Op::Token(spec.token.iter().copied().take(8).collect()),
        Op::CodeByte(spec.code),
        Op::Mid(spec.mid),
    ];
    for (n, b) in &spec.options {
        ops.push(Op::Add(*n, b.clone()));
    }
    ops.push(Op::Payload(spec.payload.clone()));
    ops
}

fn decoy(nums: Vec<u16>) -> BoxedStrategy<Op> {
    let num = if nums.is_empty() {
        any::<u16>().boxed()
    } else {
        prop_oneof![
            3 => proptest::sample::select(nums),
            1 => any::<u16>(),
            1 => proptest::sample::select(vec![6u16, 11, 12, 23, 27, 258]),
        ]
        .boxed()
    };
    prop_oneof![
        2 => (0u8..4).prop_map(Op::Version),
        2 => (0u8..4).prop_map(Op::Type),
        2 => token().prop_map(Op::Token),
        2 => code_byte().prop_map(Op::CodeStr),
        1 => code_byte().prop_map(Op::CodeByte),
        1 => Just(Op::CodeReqUnknown),
        1 => Just(Op::CodeRespUnknown),
        1 => any::<u16>().prop_map(Op::Mid),
        4 => (num.clone(), blob(300)).prop_map(|(n, b)| Op::Add(n, b)),
        2 => (num.clone(), prop_oneof![Just(0u32), Just(255), Just(256), Just(65536), any::<u32>()])
            .prop_map(|(n, v)| Op::AddU32(n, v)),
        2 => (num.clone(), proptest::collection::vec(blob(40), 0..3))
            .prop_map(|(n, l)| Op::Set(n, l)),
        4 => num.prop_map(Op::Clear),
        1 => Just(Op::ClearAll),
        1 => blob(300).prop_map(Op::Payload),
    ]
    .boxed()
}

pub fn script(max_len: usize) -> BoxedStrategy<Script> {
    msg_spec(6, max_len, 1400)
        .prop_flat_map(|spec| {
            let base = script_from_spec(&spec);
            let nums: Vec<u16> = spec.options.iter().map(|(n, _)| *n).collect();
            (
                Just(base),
                proptest::collection::vec(decoy(nums), 0..6),
            )
        })
        .prop_flat_map(|(mut base, decoys)| {
            base.extend(decoys);
            Just(base).prop_shuffle()
        })
        .prop_map(|ops| Script { ops })
        .boxed()
}

fn classify(m: &Msg, acc: &mut Acc) -> bool {
    let mut nontrivial = false;
    let mut prev = 0u16;
    let mut seen = std::collections::BTreeSet::new();
    for (n, v) in &m.options {
        let d = n - prev;
        if (13..269).contains(&d) {
            acc.class("delta-ext8");
            nontrivial = true;
        }
        if (256..269).contains(&d) {
            acc.class("delta-256..268");
        }
        if d >= 269 {
            acc.class("delta-ext16");
            nontrivial = true;
        }
        if (13..269).contains(&v.len()) {
            acc.class("len-ext8");
            nontrivial = true;
        }
        if v.len() >= 269 {
            acc.class("len-ext16");
            nontrivial = true;
        }
        if v.len() >= 65536 {
            acc.class("len>=65536");
        }
        if !seen.insert(*n) {
            acc.class("repeated-number");
        }
        prev = *n;
    }
    if m.options.first().map(|o| o.0) == Some(258) {
        acc.class("no-response-first");
    }
    if m.version != 1 {
        acc.class("version!=1");
        nontrivial = true;
    }
    if m.token.len() == 8 {
        acc.class("token-8");
    }
    if !m.payload.is_empty() {
        acc.class("payload");
        nontrivial = true;
    }
    if m.code == 0 && !m.payload.is_empty() {
        acc.class("empty-code-with-payload");
    }
    if m.mtype != 0 || m.mid != 0 || !m.token.is_empty() || m.code != 1 {
        nontrivial = true;
    }
    nontrivial
}

/// The oracle proper: `p` must encode to the reference image of `m` through
/// every entry point that applies, and that image must decode back to `m`.
pub fn check_packet_against_model(
    p: &Packet,
    m: &Msg,
    acc: &mut Acc,
) -> Result<(), Fail> {
    let reference = match m.encode() {
        Ok(r) => r,
        Err(EncErr::OptionValueTooLong) => {
            acc.class("skipped-unencodable");
            return Ok(());
        }
        Err(e) => fail!("harness", "reference encoder refused a model message: {e:?}"),
    };
    let alt = m.encode_with_payload_always().unwrap();
    let empty_with_payload = m.code == 0 && !m.payload.is_empty();

    let got = match catch(|| p.to_bytes_unlimited()) {
        Err(msg) => fail!("c01-encode-panic", "to_bytes_unlimited panicked: {msg}"),
        Ok(Err(e)) => fail!(
            "c01-encode-refused",
            "to_bytes_unlimited refused an encodable message: {e:?}; reference image {}",
            hex(&reference)
        ),
        Ok(Ok(b)) => b,
    };
    let image_ok = got == reference || (empty_with_payload && got == alt);
    ensure!(
        image_ok,
        "c01-wire-image",
        "to_bytes_unlimited differs from the RFC 7252 image: {}; got {} expected {}",
        first_diff(&got, &reference),
        hex(&got),
        hex(&reference)
    );
    // The other entry points must agree whenever the message fits under both
    // readings of "payload counted" (the exact limit is C04's business).
    let generous = alt.len().max(reference.len());
    if generous <= MAX_SIZE {
        match catch(|| p.to_bytes()) {
            Ok(Ok(b)) => ensure!(
                b == got,
                "c01-entrypoints-disagree",
                "to_bytes differs from to_bytes_unlimited: {}",
                first_diff(&b, &got)
            ),
            Ok(Err(e)) => fail!(
                "c01-encode-refused",
                "to_bytes refused a {}-byte message: {e:?}",
                reference.len()
            ),
            Err(msg) => fail!("c01-encode-panic", "to_bytes panicked: {msg}"),
        }
    }
    match catch(|| p.to_bytes_with_limit(generous)) {
        Ok(Ok(b)) => ensure!(
            b == got,
            "c01-entrypoints-disagree",
            "to_bytes_with_limit differs from to_bytes_unlimited: {}",
            first_diff(&b, &got)
        ),
        Ok(Err(e)) => fail!(
            "c01-encode-refused",
            "to_bytes_with_limit({generous}) refused a {}-byte message: {e:?}",
            reference.len()
        ),
        Err(msg) => fail!("c01-encode-panic", "to_bytes_with_limit panicked: {msg}"),
    }

    // Decode what was produced.
    let back = match catch(|| Packet::from_bytes(&got)) {
        Err(msg) => fail!(
            "c01-decode-own-panic",
            "from_bytes panicked on the crate's own encoding {}: {msg}",
            hex(&got)
        ),
        Ok(Err(e)) => fail!(
            "c01-decode-own-rejected",
            "from_bytes rejected the crate's own encoding {}: {e:?}",
            hex(&got)
        ),
        Ok(Ok(p)) => p,
    };
    let mut expect = m.clone();
    if empty_with_payload && got == reference {
        expect.payload.clear();
    }
    let decoded = to_msg(&back);
    if decoded != expect {
        let what = if decoded.options != expect.options {
            format!(
                "options differ: decoded {:?} expected {:?}",
                summarize(&decoded.options),
                summarize(&expect.options)
            )
        } else {
            format!(
                "decoded ver={} type={} tkl={} code={:#04x} mid={} payload={}B; expected ver={} type={} tkl={} code={:#04x} mid={} payload={}B",
                decoded.version, decoded.mtype, decoded.token.len(), decoded.code, decoded.mid, decoded.payload.len(),
                expect.version, expect.mtype, expect.token.len(), expect.code, expect.mid, expect.payload.len()
            )
        };
        fail!("c01-roundtrip", "decode(encode(M)) != M: {what}; image {}", hex(&got));
    }
    Ok(())
}

fn summarize(o: &[(u16, Vec<u8>)]) -> Vec<(u16, usize)> {
    o.iter().map(|(n, v)| (*n, v.len())).collect()
}

pub fn check_script(_ctx: &Ctx, s: &Script, acc: &mut Acc) -> Result<(), Fail> {
    let mut p = Packet::new();
    let mut model = Model::new();
    for op in &s.ops {
        if let Err(msg) = catch(|| apply_to_packet(&mut p, op)) {
            fail!("c01-builder-panic", "builder call {op:?} panicked: {msg}");
        }
        model.apply(op);
    }
    let m = model.msg();
    let nontrivial = classify(&m, acc);
    if s.ops.iter().any(|o| matches!(o, Op::Clear(_) | Op::ClearAll)) {
        acc.class("with-clear");
    }
    if nontrivial {
        acc.nontrivial(fp(s));
    }
    acc.sample("script", || json!(s));
    check_packet_against_model(&p, &m, acc)
}

pub fn check_spec(_ctx: &Ctx, spec: &MsgSpec, acc: &mut Acc) -> Result<(), Fail> {
    let m = spec.msg();
    let p = from_msg(&m);
    if classify(&m, acc) {
        acc.nontrivial_enum();
    }
    acc.sample("sweep", || json!(spec));
    check_packet_against_model(&p, &m, acc)
}

fn base_spec(options: Vec<(u16, Blob)>) -> MsgSpec {
    MsgSpec {
        version: 1,
        mtype: 0,
        token: vec![0xAB],
        code: 0x01,
        mid: 0x1234,
        options,
        payload: Blob::Lit(vec![]),
    }
}

pub fn run(ctx: &Ctx, rep: &mut Report) {
    rep.assume("reference encoder/parser written from RFC 7252 section 3 is part of the trusted base");
    rep.assume("Header::set_token_length called directly (TKL != token length) and tokens > 8 bytes are outside the stated domain");

    // (a) every first-option number with an empty value, plus a one-byte value
    // for numbers around the thresholds.
    run_enum_chunks(
        ctx,
        rep,
        "first-option-number-sweep",
        "every option number 0..=65535 as the only option (empty value) and as the first of two options; non-trivial = needs an extended delta",
        true,
        64,
        |c| {
            (c * 1024..(c + 1) * 1024).flat_map(|n| {
                let n = n as u16;
                let mut v = vec![base_spec(vec![(n, Blob::Lit(vec![]))])];
                if n < 600 || n > 65000 || n % 97 == 0 {
                    v.push(base_spec(vec![
                        (n, Blob::Lit(vec![n as u8])),
                        (n.saturating_add(1), Blob::Lit(vec![1, 2])),
                    ]));
                }
                v
            })
        },
        check_spec,
    );

    // (b) every value length across the thresholds for a single option.
    let mut lens: Vec<usize> = (0..=700).collect();
    lens.extend(65_200..=65_804);
    let mut cases = Vec::new();
    for l in lens {
        for num in [11u16, 258] {
            if l > 2000 && num == 258 && l % 7 != 0 {
                continue;
            }
            cases.push(base_spec(vec![(
                num,
                Blob::Pat {
                    len: l as u32,
                    seed: l as u8,
                },
            )]));
        }
    }
    run_list(
        ctx,
        rep,
        "value-length-sweep",
        "every value length 0..=700 and 65200..=65804 of a single option (numbers 11 and 258); non-trivial = extended length",
        true,
        cases,
        check_spec,
    );

    // (c) grid of delta class x length class for the second of two options.
    let deltas: [u32; 14] =
        [0, 1, 12, 13, 14, 255, 256, 268, 269, 270, 524, 525, 65000, 65535];
    let glens: [usize; 12] =
        [0, 1, 12, 13, 14, 268, 269, 270, 1279, 65535, 65803, 65804];
    let mut grid = Vec::new();
    for first in [0u16, 1, 258] {
        for d in deltas {
            for l in glens {
                let second = first as u32 + d;
                if second > 65535 {
                    continue;
                }
                for with_payload in [false, true] {
                    let mut s = base_spec(vec![
                        (first, Blob::Lit(vec![7])),
                        (
                            second as u16,
                            Blob::Pat {
                                len: l as u32,
                                seed: 3,
                            },
                        ),
                    ]);
                    if with_payload {
                        s.payload = Blob::Lit(vec![0xFF, 0x00, 0xFF]);
                    }
                    grid.push(s);
                }
            }
        }
    }
    run_list(
        ctx,
        rep,
        "delta-length-grid",
        "grid of option-delta boundaries x value-length boundaries for the second of two options, with and without payload",
        true,
        grid,
        check_spec,
    );

    // (c2) one option number holding hundreds of values
    let mut rep_scripts = Vec::new();
    for num in [0u16, 11, 258, 65535] {
        for count in [254usize, 255, 256, 257, 300, 1000, 5000] {
            for len in [0u32, 1, 13] {
                if num != 11 && (count > 300 || len == 13) && !(num == 65535 && count == 1000 && len == 0) {
                    continue;
                }
                let mut ops = vec![Op::Token(vec![7; (count % 9).min(8)]), Op::CodeByte(0x02), Op::Mid(count as u16)];
                for i in 0..count {
                    ops.push(Op::Add(num, Blob::Pat { len, seed: i as u8 }));
                }
                if num == 11 {
                    // a neighbour above, so that the delta after the long run is checked
                    ops.push(Op::Add(12, Blob::Lit(vec![40])));
                    ops.push(Op::Payload(Blob::Lit(vec![1, 2, 3])));
                }
                rep_scripts.push(Script { ops });
            }
        }
    }
    run_list(
        ctx,
        rep,
        "repeated-option-values",
        "one option number (0, 11, 258, 65535) given 254..5000 values of 0, 1 or 13 bytes through add_option, optionally followed by a higher number and a payload; same oracle as the build scripts",
        true,
        rep_scripts,
        |ctx, s: &Script, acc| {
            acc.class("hundreds-of-values-for-one-number");
            check_script(ctx, s, acc)
        },
    );

    // (d) random build scripts with shrinking.
    let n = ctx.cases(120_000, 1_500_000);
    run_prop(
        ctx,
        rep,
        "build-scripts",
        "random shuffled scripts of public-API calls (setters, add/set/clear option, payload) interpreted on Packet and on a model; non-trivial = extended delta/length, payload or non-default header; distinct by script hash",
        n,
        || script(2000),
        check_script,
    );
    // (d2) many options in one message (17..=120), small values, mixed deltas
    let n = ctx.cases(6_000, 100_000);
    run_prop(
        ctx,
        rep,
        "many-options",
        "messages with 17..=120 options (deltas 0..=300 biased to 0/1/12/13/14, values 0..=20 bytes and a few long ones, repeated numbers), built in shuffled order; same oracle",
        n,
        || {
            (
                proptest::collection::vec(
                    (
                        prop_oneof![4 => 0u32..=2, 2 => 11u32..=15, 1 => 250u32..=300, 1 => 0u32..=40],
                        prop_oneof![8 => 0usize..=20, 1 => proptest::sample::select(vec![255usize, 268, 269, 270, 600])],
                        any::<u8>(),
                    ),
                    17..=120,
                ),
                token(),
                code_byte(),
                any::<u16>(),
                prop_oneof![Just(0usize), 0usize..30],
            )
                .prop_flat_map(|(opts, token, code, mid, plen)| {
                    let mut num = 0u32;
                    let mut ops = vec![Op::Token(token), Op::CodeByte(code), Op::Mid(mid), Op::Payload(Blob::Pat { len: plen as u32, seed: 5 })];
                    for (d, l, s) in opts {
                        num = (num + d).min(65535);
                        ops.push(Op::Add(num as u16, Blob::Pat { len: l as u32, seed: s }));
                    }
                    Just(ops).prop_shuffle()
                })
                .prop_map(|ops| Script { ops })
        },
        |ctx, s: &Script, acc| {
            acc.class("many-options-script");
            check_script(ctx, s, acc)
        },
    );
    // (e) the same with option values up to the 16-bit length limit.
    let n = ctx.cases(4_000, 60_000);
    run_prop(
        ctx,
        rep,
        "build-scripts-large",
        "as build-scripts, option values up to 65804 bytes",
        n,
        || script(65_804),
        check_script,
    );
}
