//! C16 — link-format writer output parses back to the same content.
//! C17 — link-format parser is total and its two unquoting paths agree.
//! C18 — link-format writer reports every sink failure.

use std::fmt::Write;

use coap_lite::link_format::{
    LinkAttributeParser, LinkFormatParser, LinkFormatWrite, Unquote,
};
use proptest::prelude::*;
use serde::{Deserialize, Serialize};
use serde_json::json;

use crate::engine::*;
use crate::{ensure, fail};

#[derive(Clone, Debug, PartialEq, Eq, Hash, Serialize, Deserialize)]
pub enum AttrVal {
    /// written with `attr` (quotes only when needed)
    Auto(String),
    /// written with `attr_quoted`
    Quoted(String),
    U32(u32),
    U16(u16),
}

impl AttrVal {
    pub fn text(&self) -> String {
        match self {
            AttrVal::Auto(s) | AttrVal::Quoted(s) => s.clone(),
            AttrVal::U32(v) => v.to_string(),
            AttrVal::U16(v) => v.to_string(),
        }
    }
}

#[derive(Clone, Debug, PartialEq, Eq, Hash, Serialize, Deserialize)]
pub struct Link {
    pub target: String,
    pub attrs: Vec<(String, AttrVal)>,
}

#[derive(Clone, Debug, PartialEq, Eq, Hash, Serialize, Deserialize)]
pub struct Doc {
    pub links: Vec<Link>,
    pub newlines: bool,
}

/// Writes `doc` into `sink`; returns the per-link finish results and the
/// final result.
pub fn write_doc<W: Write>(doc: &Doc, sink: &mut W) -> (Vec<bool>, bool) {
    let mut per_link = Vec::new();
    let mut w = LinkFormatWrite::new(sink);
    w.set_add_newlines(doc.newlines);
    for link in &doc.links {
        let mut a = w.link(&link.target);
        for (k, v) in &link.attrs {
            a = match v {
                AttrVal::Auto(s) => a.attr(k, s),
                AttrVal::Quoted(s) => a.attr_quoted(k, s),
                AttrVal::U32(x) => a.attr_u32(k, *x),
                AttrVal::U16(x) => a.attr_u16(k, *x),
            };
        }
        per_link.push(a.finish().is_ok());
    }
    let fin = w.finish().is_ok();
    (per_link, fin)
}

fn structural(s: &str) -> bool {
    s.chars().any(|c| matches!(c, '"' | '\\' | ',' | ';'))
}

pub fn check_roundtrip(_ctx: &Ctx, doc: &Doc, acc: &mut Acc, enumerated: bool) -> Result<(), Fail> {
    let mut out = String::new();
    let (per, fin) = match catch(|| write_doc(doc, &mut out)) {
        Ok(r) => r,
        Err(msg) => fail!("c16-writer-panic", "writer panicked: {msg}"),
    };
    ensure!(
        fin && per.iter().all(|x| *x),
        "c16-writer-error",
        "writer reported an error on a String sink"
    );
    let parsed = catch(|| {
        let mut links = Vec::new();
        for item in LinkFormatParser::new(&out) {
            match item {
                Err(e) => return Err(format!("{e:?}")),
                Ok((target, attrs)) => {
                    let mut av = Vec::new();
                    for (k, v) in attrs {
                        av.push((k.to_string(), v.to_string(), v.to_cow().into_owned()));
                    }
                    links.push((target.to_string(), av));
                }
            }
            if links.len() > out.len() + 2 {
                return Err("parser does not terminate".into());
            }
        }
        Ok(links)
    });
    let links = match parsed {
        Err(msg) => fail!("c16-parser-panic", "parsing the writer's output {out:?} panicked: {msg}"),
        Ok(Err(e)) => fail!("c16-parse-error", "parsing the writer's output {out:?} reported {e}"),
        Ok(Ok(l)) => l,
    };
    ensure!(
        links.len() == doc.links.len(),
        "c16-link-count",
        "wrote {} links, parsed {} from {out:?}",
        doc.links.len(),
        links.len()
    );
    for (i, (l, (t, av))) in doc.links.iter().zip(links.iter()).enumerate() {
        ensure!(
            &l.target == t,
            "c16-target",
            "link {i}: wrote target {:?}, parsed {t:?} from {out:?}",
            l.target
        );
        ensure!(
            av.len() == l.attrs.len(),
            "c16-attr-count",
            "link {i}: wrote {} attributes, parsed {} from {out:?}",
            l.attrs.len(),
            av.len()
        );
        for (j, ((k, v), (pk, ps, pc))) in l.attrs.iter().zip(av.iter()).enumerate() {
            ensure!(k == pk, "c16-key", "link {i} attr {j}: wrote key {k:?}, parsed {pk:?} from {out:?}");
            let want = v.text();
            ensure!(
                &want == ps,
                "c16-value-to-string",
                "link {i} attr {j}: wrote value {want:?}, to_string() gives {ps:?}; document {out:?}"
            );
            ensure!(
                &want == pc,
                "c16-value-to-cow",
                "link {i} attr {j}: wrote value {want:?}, to_cow() gives {pc:?}; document {out:?}"
            );
        }
    }
    let nt = doc.links.len() >= 2
        || doc.links.iter().any(|l| l.attrs.iter().any(|(_, v)| structural(&v.text())));
    if nt {
        if enumerated {
            acc.nontrivial_enum();
        } else {
            acc.nontrivial(fp(doc));
        }
    }
    if doc.links.len() >= 2 {
        acc.class("links>=2");
    }
    if doc.newlines {
        acc.class("newlines");
    }
    for l in &doc.links {
        for (_, v) in &l.attrs {
            let t = v.text();
            if t.contains('"') {
                acc.class("value-with-quote");
            }
            if t.contains('\\') {
                acc.class("value-with-backslash");
            }
            if t.contains(',') || t.contains(';') {
                acc.class("value-with-separator");
            }
            if matches!(v, AttrVal::U32(_) | AttrVal::U16(_)) {
                acc.class("integer-value");
            }
        }
    }
    acc.sample("document", || json!({"doc": doc, "written": out}));
    Ok(())
}

// ---------------------------------------------------------------- C17

fn inside(outer: &str, inner: &str) -> bool {
    if inner.is_empty() {
        return true; // the empty string is a substring of everything
    }
    let (o, i) = (outer.as_ptr() as usize, inner.as_ptr() as usize);
    i >= o && i + inner.len() <= o + outer.len()
}

pub fn check_unquote(v: &Unquote<'_>, acc: &mut Acc) -> Result<(), Fail> {
    let raw = v.clone().into_raw_str().to_string();
    let s1 = match catch(|| v.to_string()) {
        Ok(s) => s,
        Err(msg) => fail!("c17-unquote-panic", "to_string() panicked on value {raw:?}: {msg}"),
    };
    let s2: String = match catch(|| {
        let mut out = String::new();
        let mut n = 0usize;
        for c in v.clone() {
            out.push(c);
            n += 1;
            if n > raw.len() + 2 {
                return Err(());
            }
        }
        Ok(out)
    }) {
        Ok(Ok(s)) => s,
        Ok(Err(())) => fail!("c17-unquote-diverges", "char iteration over {raw:?} yields more characters than the input has"),
        Err(msg) => fail!("c17-unquote-panic", "char iteration panicked on value {raw:?}: {msg}"),
    };
    let s3 = match catch(|| v.to_cow().into_owned()) {
        Ok(s) => s,
        Err(msg) => fail!("c17-to-cow-panic", "to_cow() panicked on value {raw:?}: {msg}"),
    };
    ensure!(
        s1 == s2,
        "c17-to-string-vs-chars",
        "value {raw:?}: to_string() = {s1:?}, chars().collect() = {s2:?}"
    );
    ensure!(
        s3 == s1,
        "c17-cow-vs-string",
        "value {raw:?}: to_cow() = {s3:?} but character-by-character unquoting gives {s1:?}"
    );
    // the conversion a caller writes as Cow::from(value) / value.into()
    let s4 = match catch(|| std::borrow::Cow::<str>::from(v.clone()).into_owned()) {
        Ok(s) => s,
        Err(msg) => fail!("c17-to-cow-panic", "Cow::from(value) panicked on value {raw:?}: {msg}"),
    };
    ensure!(
        s4 == s1,
        "c17-cow-vs-string",
        "value {raw:?}: Cow::from(value) = {s4:?} but character-by-character unquoting gives {s1:?}"
    );
    // totality also for a value whose iteration has begun: after k steps
    // neither form may panic (their relation is not fixed by the statement)
    let nchars = raw.chars().count();
    for k in 1..=nchars.min(6) + 1 {
        let mut it = v.clone();
        for _ in 0..k {
            it.next();
        }
        if let Err(msg) = catch(|| {
            let _ = it.to_cow();
            let _ = it.to_string();
        }) {
            fail!(
                "c17-unquote-panic-after-steps",
                "value {raw:?}: to_cow()/to_string() panicked after {k} iteration steps: {msg}"
            );
        }
    }
    if raw.starts_with('"') {
        let body = &raw[1..];
        // find the closing quote honouring escapes
        let mut it = body.char_indices();
        let mut close = None;
        while let Some((i, c)) = it.next() {
            if c == '\\' {
                it.next();
            } else if c == '"' {
                close = Some(i);
                break;
            }
        }
        match close {
            None if raw.len() == 1 => acc.class("lone-quote"),
            None => acc.class("unterminated-quote"),
            Some(i) if i + 1 < body.len() => acc.class("text-after-closing-quote"),
            Some(_) => acc.class("quoted-value"),
        }
        if raw.ends_with('\\') {
            acc.class("escape-at-end");
        }
    }
    Ok(())
}

pub fn check_total(_ctx: &Ctx, s: &String, acc: &mut Acc, enumerated: bool) -> Result<(), Fail> {
    let bound = s.len() + 1;
    // Everything that touches the parser runs under panic capture.
    let outcome = catch(|| -> Result<(), Fail> {
        let mut parser = LinkFormatParser::new(s);
        let mut items = 0usize;
        let mut last_start = s.as_ptr() as usize;
        loop {
            let item = parser.next();
            let Some(item) = item else { break };
            items += 1;
            ensure!(
                items <= bound,
                "c17-no-progress",
                "link parser yielded more than {bound} items for {s:?}"
            );
            match item {
                Err(_) => {
                    acc.class("error-item");
                    for _ in 0..3 {
                        ensure!(
                            parser.next().is_none(),
                            "c17-item-after-error",
                            "link parser yielded an item after reporting an error for {s:?}"
                        );
                    }
                    break;
                }
                Ok((target, attrs)) => {
                    ensure!(
                        inside(s, target),
                        "c17-not-substring",
                        "target {target:?} is not a substring of the input {s:?}"
                    );
                    if !target.is_empty() {
                        ensure!(
                            target.as_ptr() as usize >= last_start,
                            "c17-order",
                            "target {target:?} starts before the previous item in {s:?}"
                        );
                        last_start = target.as_ptr() as usize;
                    }
                    let attrs: LinkAttributeParser = attrs;
                    let mut n = 0usize;
                    for (key, value) in attrs {
                        n += 1;
                        ensure!(
                            n <= bound,
                            "c17-no-progress",
                            "attribute parser yielded more than {bound} items for {s:?}"
                        );
                        let raw = value.clone().into_raw_str();
                        ensure!(
                            inside(s, key) && inside(s, raw),
                            "c17-not-substring",
                            "attribute ({key:?}, {raw:?}) is not made of substrings of {s:?}"
                        );
                        for part in [key, raw] {
                            if !part.is_empty() {
                                ensure!(
                                    part.as_ptr() as usize >= last_start,
                                    "c17-order",
                                    "attribute part {part:?} starts before the previous item in {s:?}"
                                );
                                last_start = part.as_ptr() as usize;
                            }
                        }
                        check_unquote(&value, acc)?;
                    }
                }
            }
        }
        Ok(())
    });
    match outcome {
        Err(msg) => fail!("c17-parser-panic", "parsing {s:?} panicked: {msg}"),
        Ok(r) => r?,
    }
    // the whole input as a bare value, too
    check_unquote(&Unquote::new(s), acc)?;
    if s.contains('"') {
        if enumerated {
            acc.nontrivial_enum();
        } else {
            acc.nontrivial(fp(s));
        }
    }
    acc.sample("input", || json!(s));
    Ok(())
}

// ---------------------------------------------------------------- C18

pub struct FaultySink {
    pub buf: String,
    pub calls: usize,
    pub fail_at: Option<usize>,
    pub persistent: bool,
    pub failed: bool,
    pub wrote_after_fail: bool,
    pub calls_after_fail: usize,
    pub override_char: bool,
}

impl FaultySink {
    pub fn new(fail_at: Option<usize>, persistent: bool, override_char: bool) -> Self {
        FaultySink {
            buf: String::new(),
            calls: 0,
            fail_at,
            persistent,
            failed: false,
            wrote_after_fail: false,
            calls_after_fail: 0,
            override_char,
        }
    }
    fn op(&mut self, text: &str) -> std::fmt::Result {
        let idx = self.calls;
        self.calls += 1;
        if self.failed {
            self.calls_after_fail += 1;
        }
        let fail_now = match self.fail_at {
            Some(k) if self.persistent => idx >= k,
            Some(k) => idx == k,
            None => false,
        };
        if fail_now {
            self.failed = true;
            return Err(std::fmt::Error);
        }
        if self.failed {
            self.wrote_after_fail = true;
        }
        self.buf.push_str(text);
        Ok(())
    }
}

pub struct SinkA(pub FaultySink);
pub struct SinkB(pub FaultySink);

impl Write for SinkA {
    fn write_str(&mut self, s: &str) -> std::fmt::Result {
        self.0.op(s)
    }
}
impl Write for SinkB {
    fn write_str(&mut self, s: &str) -> std::fmt::Result {
        self.0.op(s)
    }
    fn write_char(&mut self, c: char) -> std::fmt::Result {
        let mut b = [0u8; 4];
        self.0.op(c.encode_utf8(&mut b))
    }
}

fn run_with_sink(doc: &Doc, fail_at: Option<usize>, persistent: bool, flavour_b: bool) -> (FaultySink, Vec<bool>, bool) {
    if flavour_b {
        let mut s = SinkB(FaultySink::new(fail_at, persistent, true));
        let (per, fin) = write_doc(doc, &mut s);
        (s.0, per, fin)
    } else {
        let mut s = SinkA(FaultySink::new(fail_at, persistent, false));
        let (per, fin) = write_doc(doc, &mut s);
        (s.0, per, fin)
    }
}

/// Call index at which each link's writes end, from fault-free runs of the
/// document's prefixes.
fn link_ends(doc: &Doc, flavour_b: bool) -> Vec<usize> {
    let mut ends = Vec::new();
    for i in 1..=doc.links.len() {
        let prefix = Doc { links: doc.links[..i].to_vec(), newlines: doc.newlines };
        let (sink, _, _) = run_with_sink(&prefix, None, false, flavour_b);
        ends.push(sink.calls);
    }
    ends
}

pub fn check_faults(_ctx: &Ctx, doc: &Doc, acc: &mut Acc) -> Result<(), Fail> {
    let mut evals = 0u64;
    for flavour_b in [false, true] {
        let (clean, per, fin) = match catch(|| run_with_sink(doc, None, false, flavour_b)) {
            Ok(r) => r,
            Err(msg) => fail!("c18-writer-panic", "writer panicked without a fault: {msg}"),
        };
        ensure!(
            fin && per.iter().all(|x| *x),
            "c18-error-without-fault",
            "writer reported an error although the sink never failed"
        );
        let full = clean.buf.clone();
        let mut reference = String::new();
        let _ = write_doc(doc, &mut reference);
        ensure!(
            full == reference,
            "c18-incomplete-output",
            "fault-free counting sink holds {full:?}, String sink holds {reference:?}"
        );
        let n = clean.calls;
        let ends = link_ends(doc, flavour_b);
        // texts of the individual calls, to name the fault position
        for k in 0..n {
            for persistent in [false, true] {
                evals += 1;
                let (sink, per, fin) = match catch(|| run_with_sink(doc, Some(k), persistent, flavour_b)) {
                    Ok(r) => r,
                    Err(msg) => fail!("c18-writer-panic", "writer panicked with a fault at call {k}: {msg}"),
                };
                let mode = if persistent { "persistently" } else { "once" };
                ensure!(
                    !fin,
                    "c18-error-lost",
                    "sink failed {mode} at write call {k} of {n} (newlines={}), but LinkFormatWrite::finish() returned Ok; sink holds {:?}, fault-free output {full:?}",
                    doc.newlines,
                    sink.buf
                );
                ensure!(
                    !sink.wrote_after_fail,
                    "c18-write-after-failure",
                    "sink failed {mode} at write call {k} of {n}, yet later text reached it: sink holds {:?}, fault-free output {full:?}",
                    sink.buf
                );
                ensure!(
                    full.starts_with(&sink.buf),
                    "c18-not-a-prefix",
                    "after a fault at call {k} the sink holds {:?}, not a prefix of {full:?}",
                    sink.buf
                );
                for (i, ok) in per.iter().enumerate() {
                    let must_err = ends[i] > k;
                    ensure!(
                        *ok != must_err,
                        "c18-link-finish",
                        "fault ({mode}) at call {k}: link {i} (its writes end at call {}) finish() returned {}",
                        ends[i],
                        if *ok { "Ok" } else { "Err" }
                    );
                }
                if sink.calls_after_fail > 0 {
                    acc.class("calls-attempted-after-fault");
                }
            }
        }
        if n > 0 {
            acc.class_n("fault-runs", 2 * n as u64);
        }
    }
    acc.evaluations += evals.saturating_sub(1);
    acc.nontrivial(fp(doc));
    if doc.newlines && doc.links.len() >= 2 {
        acc.class("fault-at-separator-with-newline-possible");
    }
    acc.sample("document", || json!(doc));
    Ok(())
}

// ---------------------------------------------------------------- generators

pub const VALUE_ALPHABET: [&str; 13] =
    ["\"", "\\", ",", ";", "<", ">", "=", " ", "\n", "a", "1", "é", "😁"];

pub fn key() -> BoxedStrategy<String> {
    prop_oneof![
        3 => proptest::sample::select(vec!["rt", "if", "title", "title*", "ct", "sz", "obs", "anchor", "rel", "rel", "rev", "type", "hreflang", "media", "lt", "ep", "d", "gp", "et", "base", "con", "ins", "exp", "count", "title*", "REL", "Title"]).prop_map(String::from),
        2 => "[A-Za-z0-9*_.-]{1,8}",
        1 => "[a-zéλж*]{1,6}",
    ]
    .boxed()
}

pub fn target() -> BoxedStrategy<String> {
    prop_oneof![
        3 => "/[a-z0-9/._-]{0,16}",
        2 => "[ -=?-~]{0,16}", // printable ASCII without '>'
        1 => "[<,;\"\\\\= a-cé😁]{0,10}",
        1 => Just(String::new()),
    ]
    .boxed()
}

pub fn value_text() -> BoxedStrategy<String> {
    prop_oneof![
        3 => proptest::collection::vec(proptest::sample::select(VALUE_ALPHABET.to_vec()), 0..8).prop_map(|v| v.concat()),
        2 => "[a-zA-Z0-9]{0,12}",
        2 => "\\PC{0,40}",
        1 => ("[a-z\",;\\\\ é]{1,6}", 50usize..2000).prop_map(|(u, n)| u.repeat(n / 4)),
        1 => "[\"\\\\,;<>= \\n\\ra1]{0,40}",
        // RFC 8187 extended values as used with title*
        1 => ("utf-8'(en|de-CH|)'", "[a-zA-Z%0-9;,=' ]{0,14}", proptest::sample::select(vec!["", " ", "\u{a0}"])).prop_map(|(p, t, e): (String, String, &str)| format!("{p}{t}{e}")),
        // control characters (C0, DEL, C1) and code points whose low byte is a quote / backslash
        1 => "[\\x00\\x01\\x07\\x1B\\x7F\u{80}\u{85}\u{9F}\u{122}\u{15C}\u{1F422}a\" ]{0,12}",
    ]
    .boxed()
}

pub fn attr_val() -> BoxedStrategy<AttrVal> {
    prop_oneof![
        4 => value_text().prop_map(AttrVal::Auto),
        3 => value_text().prop_map(AttrVal::Quoted),
        1 => prop_oneof![Just(0u32), Just(u32::MAX), any::<u32>()].prop_map(AttrVal::U32),
        1 => prop_oneof![Just(0u16), Just(u16::MAX), any::<u16>()].prop_map(AttrVal::U16),
    ]
    .boxed()
}

pub fn doc(max_links: usize, max_attrs: usize) -> BoxedStrategy<Doc> {
    (
        proptest::collection::vec(
            (target(), proptest::collection::vec((key(), attr_val()), 0..=max_attrs))
                .prop_map(|(target, attrs)| Link { target, attrs }),
            0..=max_links,
        ),
        any::<bool>(),
    )
        .prop_map(|(links, newlines)| Doc { links, newlines })
        .boxed()
}

fn nth_string(mut idx: u64, alphabet: &[&str], maxlen: usize) -> String {
    let a = alphabet.len() as u64;
    for l in 0..=maxlen {
        let n = a.pow(l as u32);
        if idx < n {
            let mut s = String::new();
            for _ in 0..l {
                s.push_str(alphabet[(idx % a) as usize]);
                idx /= a;
            }
            return s;
        }
        idx -= n;
    }
    unreachable!()
}

fn count_strings(a: usize, maxlen: usize) -> u64 {
    (0..=maxlen).map(|l| (a as u64).pow(l as u32)).sum()
}

pub fn run_c16(ctx: &Ctx, rep: &mut Report) {
    rep.assume("domain as stated: targets without '>', keys without separators/whitespace/'=', values arbitrary Unicode text");
    // every value of length <= 4 over the structural alphabet, through both
    // string writer methods, in a two-link document
    let maxlen = 4;
    let total = count_strings(VALUE_ALPHABET.len(), maxlen);
    run_enum_chunks(
        ctx,
        rep,
        "all-short-values",
        "every value string of length 0..=4 over {\" \\ , ; < > = space newline a 1 é 😁} written with attr and attr_quoted inside a two-link document (newline option alternating); non-trivial = value contains a quote, backslash, comma or semicolon (or >= 2 links: all)",
        true,
        64,
        |c| {
            let lo = total * c as u64 / 64;
            let hi = total * (c as u64 + 1) / 64;
            (lo..hi).map(|i| {
                let v = nth_string(i, &VALUE_ALPHABET, maxlen);
                Doc {
                    links: vec![
                        Link {
                            target: "/a".into(),
                            attrs: vec![("k".into(), AttrVal::Auto(v.clone())), ("n".into(), AttrVal::U16(7))],
                        },
                        Link {
                            target: "b,c;d".into(),
                            attrs: vec![("rt".into(), AttrVal::Quoted(v)), ("z".into(), AttrVal::Auto("x".into()))],
                        },
                    ],
                    newlines: i % 2 == 1,
                }
            })
        },
        |ctx, d: &Doc, acc| check_roundtrip(ctx, d, acc, true),
    );
    let n = ctx.cases(120_000, 10_000_000);
    run_prop(
        ctx,
        rep,
        "random-documents",
        "random documents of 0..=4 links x 0..=4 attributes (all three writer methods, integers, structural characters, all Unicode planes, newline option); distinct by document hash",
        n,
        || doc(4, 4),
        |ctx, d: &Doc, acc| check_roundtrip(ctx, d, acc, false),
    );
}

pub fn run_c17(ctx: &Ctx, rep: &mut Report) {
    rep.assume("an empty yielded string counts as a substring of the input wherever it points");
    let alphabet = ["<", ">", ";", ",", "\"", "\\", "=", " ", "a", "é"];
    let maxlen = ctx.pick(6usize, 8usize);
    let total = count_strings(alphabet.len(), maxlen);
    let nchunks = ctx.pick(64usize, 1024usize);
    run_enum_chunks(
        ctx,
        rep,
        "all-short-strings",
        &format!("every string of length 0..={maxlen} over {{< > ; , \" \\ = space a é}}: termination bound, substring/ordering of every yielded item, nothing after an error, to_cow == to_string == chars for every value and for the whole input as a bare value; non-trivial = contains a quote"),
        true,
        nchunks,
        |c| {
            let lo = total * c as u64 / nchunks as u64;
            let hi = total * (c as u64 + 1) / nchunks as u64;
            (lo..hi).map(move |i| nth_string(i, &alphabet, maxlen))
        },
        |ctx, s: &String, acc| check_total(ctx, s, acc, true),
    );
    // the same enumeration placed behind prefixes that put it in the target,
    // attribute-list and attribute-value positions
    let maxlen2 = ctx.pick(6usize, 7usize);
    let total2 = count_strings(alphabet.len(), maxlen2);
    for (name, prefix) in [
        ("all-short-strings-as-target", "<"),
        ("all-short-strings-as-attributes", "<x>;"),
        ("all-short-strings-as-value", "<x>;k="),
        ("all-short-strings-as-quoted-value", "<x>;k=\""),
    ] {
        run_enum_chunks(
            ctx,
            rep,
            name,
            &format!("the prefix {prefix:?} followed by every string of length 0..={maxlen2} over the same alphabet (so the enumerated text sits in the target / attribute list / value position); same oracle"),
            true,
            nchunks,
            |c| {
                let lo = total2 * c as u64 / nchunks as u64;
                let hi = total2 * (c as u64 + 1) / nchunks as u64;
                (lo..hi).map(move |i| format!("{prefix}{}", nth_string(i, &alphabet, maxlen2)))
            },
            |ctx, s: &String, acc| check_total(ctx, s, acc, true),
        );
    }
    let n = ctx.cases(300_000, 5_000_000);
    run_prop(
        ctx,
        rep,
        "random-strings",
        "random strings up to 200 characters over a wider alphabet (structural characters, whitespace, 2/3/4-byte code points) and every prefix-like truncation of written documents",
        n,
        || {
            prop_oneof![
                3 => "[<>;,\"\\\\= \\n\\ta-cé€😁]{0,40}",
                1 => "[<>;,\"\\\\= \\n\\ta-cé€😁]{0,200}",
                1 => "\\PC{0,60}",
                // code points whose low byte equals '"' (0x22) or '\\' (0x5C), next to quotes
                1 => "[<>;=\"\\\\a\u{122}\u{15C}\u{1F422}\u{222}\u{25C}]{0,24}",
                // long inputs: one structural unit repeated thousands of times
                1 => (proptest::sample::select(vec![";", ",", "<", "\"", "\\", "<a>,", "<a>;k=\"v\",", ";k=v", " ", "é", "<a>;é=\"😁\\\"\";"]), 1000usize..8000, "[<>;,\"a]{0,4}")
                    .prop_map(|(unit, n, tail)| {
                        // the repetition sits between two ordinary attributes
                        // (leading / trailing separators are trimmed away)
                        let mut s = String::from("<x>;k=v");
                        for _ in 0..n {
                            s.push_str(unit);
                        }
                        s.push_str(&tail);
                        if n % 2 == 0 {
                            s.push_str(";z=1");
                        }
                        s
                    }),
                // every kind of blank (ASCII and multi-byte white space, controls) next to
                // the structural characters
                2 => "[<>;,\"\\\\= \\t\\r\\n\\x0B\\x0C\u{85}\u{a0}\u{2003}\u{2028}\u{3000}a]{0,24}",
                // link-shaped: target, then attributes with blanks around '=' and values
                3 => (
                    "[a-c/\\t\\r\\n é\u{a0}]{0,6}",
                    proptest::collection::vec(
                        (
                            "[a-c \u{a0}]{0,3}",
                            "[ \\t\\r\\n\\x0B\u{85}\u{a0}\u{2003}\u{3000}]{0,2}",
                            prop_oneof!["[a-c\"\\\\ é\\r\\n]{0,6}", "\"[a-c\"\\\\ ,;é\\r\\n]{0,6}\"?"],
                            "[ \\t\u{a0}\u{3000}]{0,2}",
                        ),
                        0..4,
                    ),
                    proptest::option::of("[,;<> a]{0,4}"),
                )
                    .prop_map(|(target, attrs, tail)| {
                        let mut s = format!("<{target}>");
                        for (k, ws1, v, ws2) in attrs {
                            s.push(';');
                            s.push_str(&k);
                            s.push('=');
                            s.push_str(&ws1);
                            s.push_str(&v);
                            s.push_str(&ws2);
                        }
                        if let Some(t) = tail {
                            s.push_str(&t);
                        }
                        s
                    }),
                3 => (doc(3, 3), any::<prop::sample::Index>()).prop_map(|(d, i)| {
                    let mut out = String::new();
                    let _ = write_doc(&d, &mut out);
                    // cut at a char boundary
                    let mut k = i.index(out.len() + 1);
                    while !out.is_char_boundary(k) {
                        k -= 1;
                    }
                    out.truncate(k);
                    out
                }),
            ]
        },
        |ctx, s: &String, acc| check_total(ctx, s, acc, false),
    );
}

pub fn run_c18(ctx: &Ctx, rep: &mut Report) {
    rep.assume("the sink is a core::fmt::Write implementation that fails by returning Err from a write call and stores nothing for a failed call");
    // directed small documents first (two links, newline on/off), then random
    let mut directed = Vec::new();
    for newlines in [false, true] {
        for nlinks in 0..=3usize {
            let links = (0..nlinks)
                .map(|i| Link {
                    target: format!("/l{i}"),
                    attrs: vec![
                        ("rt".into(), AttrVal::Auto("a b\"c".into())),
                        ("sz".into(), AttrVal::U32(10 + i as u32)),
                        ("p".into(), AttrVal::Auto("plain".into())),
                    ],
                })
                .collect();
            directed.push(Doc { links, newlines });
            let bare = (0..nlinks).map(|i| Link { target: format!("t{i}"), attrs: vec![] }).collect();
            directed.push(Doc { links: bare, newlines });
        }
    }
    // long documents: more links than a byte can count
    for newlines in [false, true] {
        let bare = (0..300usize).map(|i| Link { target: format!("t{i}"), attrs: vec![] }).collect();
        directed.push(Doc { links: bare, newlines });
    }
    let with_attr = (0..260usize)
        .map(|i| Link { target: format!("/l{i}"), attrs: vec![("ct".into(), AttrVal::U32((i % 3) as u32))] })
        .collect();
    directed.push(Doc { links: with_attr, newlines: false });
    run_list(
        ctx,
        rep,
        "directed-documents-all-faults",
        "documents of 0..=3 links (with and without attributes, newline on/off) and three documents of 260..300 links: every write-call index x {fail once, fail persistently} x two sink flavours, each fault run counted as one evaluation",
        true,
        directed,
        check_faults,
    );
    let n = ctx.cases(4_000, 200_000);
    run_prop(
        ctx,
        rep,
        "random-documents-all-faults",
        "random documents (0..=3 links x 0..=3 attributes): for each, every write-call index x {fail once, fail persistently} x newline option as generated x two sink flavours is enumerated completely; each fault run counted as one evaluation; distinct by document hash",
        n,
        || doc(3, 3),
        check_faults,
    );
}
