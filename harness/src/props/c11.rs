//! C11 — block handler survives hostile traffic: no panic, bounded buffers,
//! clean errors.

use coap_lite::{BlockHandler, CoapRequest, Packet};
use proptest::prelude::*;
use serde::{Deserialize, Serialize};
use serde_json::json;

use crate::blockwise::*;
use crate::engine::*;
use crate::gen::wire::pattern;
use crate::{ensure, fail};

pub const JUMP: usize = 16 * 1024;

#[derive(Clone, Debug, PartialEq, Eq, Hash, Serialize, Deserialize)]
pub enum RawBlock {
    Valid { num: u32, more: bool, szx: u8 },
    Bytes(Vec<u8>),
}

impl RawBlock {
    pub fn bytes(&self) -> Vec<u8> {
        match self {
            RawBlock::Valid { num, more, szx } => block_bytes(*num, *more, *szx),
            RawBlock::Bytes(b) => b.clone(),
        }
    }
}

#[derive(Clone, Debug, PartialEq, Eq, Hash, Serialize, Deserialize)]
pub struct HostileReq {
    pub endpoint: u8,
    pub mtype: u8,
    pub token_len: u8,
    pub code: u8,
    pub path: Vec<Vec<u8>>,
    /// (option number, value length) of bloat options
    pub bloat: Vec<(u16, u16)>,
    pub block1: Option<RawBlock>,
    pub block2: Option<RawBlock>,
    pub payload_len: u16,
}

#[derive(Clone, Debug, PartialEq, Eq, Hash, Serialize, Deserialize)]
pub struct HostileReply {
    pub present: bool,
    pub code: u8,
    pub body_len: u16,
    pub bloat: Vec<(u16, u16)>,
    pub preset_block2: Option<RawBlock>,
}

#[derive(Clone, Debug, PartialEq, Eq, Hash, Serialize, Deserialize)]
pub struct Seq {
    pub budget: usize,
    pub steps: Vec<(HostileReq, HostileReply)>,
}

impl HostileReq {
    pub fn spec(&self, mid: u16) -> ReqSpec {
        ReqSpec {
            mtype: self.mtype & 3,
            token: vec![0xC3; self.token_len.min(8) as usize],
            mid,
            method: self.code,
            path: self.path.clone(),
            extra: self
                .bloat
                .iter()
                .map(|(n, l)| (*n, pattern(*l as usize, *n as u8)))
                .collect(),
            block1: self.block1.as_ref().map(|b| b.bytes()),
            block2: self.block2.as_ref().map(|b| b.bytes()),
            payload: body(self.payload_len as usize, 0x31),
        }
    }
}

impl HostileReply {
    pub fn app(&self) -> Option<AppSpec> {
        if !self.present {
            return None;
        }
        let mut options: Vec<(u16, Vec<u8>)> = self
            .bloat
            .iter()
            .map(|(n, l)| (*n, pattern(*l as usize, 1)))
            .collect();
        if let Some(b) = &self.preset_block2 {
            options.push((OPT_BLOCK2, b.bytes()));
        }
        Some(AppSpec {
            code: self.code,
            options,
            body: body(self.body_len as usize, 0x77),
        })
    }
}

fn valid_block1(r: &HostileReq) -> Option<Block> {
    match &r.block1 {
        Some(b) => {
            let bytes = b.bytes();
            // what the RFC value means, independent of the crate's decoder
            let blk = parse_block(&bytes)?;
            if blk.num > 65535 {
                None
            } else {
                Some(blk)
            }
        }
        None => None,
    }
}

pub fn check_seq(_ctx: &Ctx, s: &Seq, acc: &mut Acc) -> Result<(), Fail> {
    // budget 1152 is the crate's default: take it from Default when it is
    let dflt = coap_lite::BlockHandlerConfig::default();
    let mut handler: BlockHandler<u8> = if dflt.max_total_message_size == s.budget {
        acc.class("handler-from-default-config");
        BlockHandler::new(dflt)
    } else {
        new_handler(s.budget, HOUR)
    };
    let mut nontrivial = false;
    for (i, (hr, reply)) in s.steps.iter().enumerate() {
        let spec = hr.spec(10 + i as u16);
        let msg = spec.msg();
        let bytes = match msg.encode() {
            Ok(b) => b,
            Err(_) => {
                acc.class("step-skipped-unencodable");
                continue;
            }
        };
        let overhead = spec.overhead();
        // classification of the step
        let slack = s.budget as i64 - overhead as i64 - 12;
        if slack < 0 {
            acc.class("budget-overhead-12<0");
            nontrivial = true;
        } else if slack == 0 {
            acc.class("budget-overhead-12=0");
            nontrivial = true;
        } else if slack < 16 {
            acc.class("budget-overhead-12 in 1..15");
            nontrivial = true;
        }
        if overhead > 1280 {
            acc.class("request-overhead>1280");
            nontrivial = true;
        }
        let key_req: CoapRequest<u8> = match Packet::from_bytes(&bytes) {
            Ok(p) => CoapRequest::from_packet(p, hr.endpoint),
            Err(e) => fail!("harness", "hostile request did not parse: {e:?}"),
        };
        #[cfg(feature = "hooks")]
        let len_before: Option<usize> = handler.verif_upload_len(&key_req);
        #[cfg(not(feature = "hooks"))]
        let len_before: Option<usize> = None;
        let app = reply.app();
        if let Some(a) = &app {
            if a.overhead(hr.token_len as usize) > 1280 {
                acc.class("reply-overhead>1280");
                nontrivial = true;
            }
        }
        let out = exchange(&mut handler, &bytes, hr.endpoint, &mut |_r| app.clone());
        let ctx = format!(
            "step {i} of {}, budget {}, request overhead {overhead}, payload {}, type {}, Block1 {:?}, Block2 {:?}, reply {:?}",
            s.steps.len(),
            s.budget,
            hr.payload_len,
            hr.mtype & 3,
            hr.block1,
            hr.block2,
            reply
        );
        if let Step::Panic(m) = &out.intercept_request {
            fail!("c11-intercept-request-panic", "intercept_request panicked ({ctx}): {m}");
        }
        if let Some(Step::Panic(m)) = &out.intercept_response {
            fail!("c11-intercept-response-panic", "intercept_response panicked ({ctx}): {m}");
        }
        for (what, step) in [("intercept_request", Some(&out.intercept_request)), ("intercept_response", out.intercept_response.as_ref())] {
            if let Some(Step::Err(e)) = step {
                acc.class("handling-error");
                match e.code {
                    Some(c) => {
                        ensure!(
                            c >= 0x80,
                            "c11-error-not-renderable",
                            "{what} returned an error with code {c:#04x}, which is not a 4.xx/5.xx reply ({ctx})"
                        );
                        if out.had_prepared_response {
                            ensure!(
                                out.error_applied == Some(true),
                                "c11-error-not-renderable",
                                "{what} returned an error that apply_from_error could not render although a response was prepared ({ctx})"
                            );
                        }
                    }
                    None => ensure!(
                        !out.had_prepared_response,
                        "c11-error-without-code",
                        "{what} returned an error without a code ({:?}) although a response was prepared ({ctx})",
                        e.message
                    ),
                }
            }
        }
        if let Some(t) = &out.trouble {
            // a response the handler touched must still be a message
            fail!("c11-response-not-encodable", "{t} ({ctx})");
        }
        // buffer clause
        #[cfg(feature = "hooks")]
        let len_after: Option<usize> = handler.verif_upload_len(&key_req);
        #[cfg(not(feature = "hooks"))]
        let len_after: Option<usize> = None;
        if let Some(blk) = valid_block1(hr) {
            let before = len_before.unwrap_or(0);
            let offset = blk.num as usize * blk.size();
            let gap = offset.saturating_sub(before);
            if gap > JUMP.saturating_sub(blk.size()) && gap <= JUMP + blk.size() {
                acc.class("jump-within-one-block-of-16KiB");
                nontrivial = true;
            }
            if cfg!(feature = "hooks") {
                let after = len_after.unwrap_or(0);
                ensure!(
                    after <= before + JUMP + hr.payload_len as usize,
                    "c11-buffer-growth",
                    "one request grew the buffered upload from {before} to {after} bytes, more than 16 KiB beyond its {}-byte payload ({ctx})",
                    hr.payload_len
                );
                if gap > JUMP {
                    acc.class("jump>16KiB");
                    ensure!(
                        matches!(out.intercept_request, Step::Err(_)),
                        "c11-jump-not-rejected",
                        "a block at offset {offset} with {before} bytes buffered (jump {gap} > 16384) was not rejected: {:?} ({ctx})",
                        out.intercept_request
                    );
                    ensure!(
                        after == before && len_after.is_some() == len_before.is_some() || (len_before.is_none() && after == 0),
                        "c11-rejected-jump-changed-buffer",
                        "a rejected block changed the buffered upload from {before} to {after} bytes ({ctx})"
                    );
                }
            }
            if out.app_called {
                if let Some(saw) = &out.app_saw {
                    if cfg!(feature = "hooks") {
                        ensure!(
                            saw.len() <= before + JUMP + hr.payload_len as usize,
                            "c11-buffer-growth",
                            "the completing block delivered {} bytes with {before} buffered before and a {}-byte payload ({ctx})",
                            saw.len(),
                            hr.payload_len
                        );
                    }
                    acc.class("upload-completed");
                }
            }
        }
        if matches!(hr.block1, Some(RawBlock::Bytes(_))) || matches!(hr.block2, Some(RawBlock::Bytes(_))) {
            acc.class("malformed-block-option");
        }
        if hr.mtype & 3 >= 2 {
            acc.class("no-prepared-response");
        }
    }
    if nontrivial {
        acc.nontrivial(fp(s));
    }
    acc.sample("sequence", || json!(s));
    Ok(())
}

fn raw_block() -> BoxedStrategy<RawBlock> {
    prop_oneof![
        8 => (
            prop_oneof![
                4 => proptest::sample::select(vec![0u32, 1, 2, 100, 4095]),
                2 => proptest::sample::select(vec![15u32, 16, 17, 255, 256, 257, 511, 512, 1023, 1024, 1025, 4096, 65535]),
                1 => 0u32..=1100,
                1 => 0u32..(1 << 20),
            ],
            any::<bool>(),
            0u8..=7
        )
            .prop_map(|(num, more, szx)| RawBlock::Valid { num, more, szx }),
        2 => proptest::collection::vec(any::<u8>(), 3..=5).prop_map(RawBlock::Bytes),
        1 => Just(RawBlock::Bytes(vec![0, 0])),
    ]
    .boxed()
}

fn bloat() -> BoxedStrategy<Vec<(u16, u16)>> {
    prop_oneof![
        5 => Just(vec![]),
        3 => proptest::collection::vec((proptest::sample::select(vec![35u16, 2048, 3, 15, 65000]), 0u16..60), 0..3),
        // options a block-wise exchange may carry and a handler may look at:
        // Size1 / Size2 (with values of 1..4 bytes), ETag, If-Match, Observe
        2 => proptest::collection::vec((proptest::sample::select(vec![60u16, 28, 4, 1, 6, 60]), 0u16..=4), 1..3),
        2 => (proptest::sample::select(vec![35u16, 2048]), 1100u16..=1400).prop_map(|x| vec![x]),
        1 => proptest::collection::vec((proptest::sample::select(vec![35u16, 2048, 15]), 200u16..700), 1..3),
    ]
    .boxed()
}

fn hostile_req() -> BoxedStrategy<HostileReq> {
    (
        (prop_oneof![6 => Just(0u8), 1 => 0u8..3], 0u8..4, 0u8..=8),
        prop_oneof![6 => proptest::sample::select(vec![1u8, 2, 3, 3, 3, 4, 5]), 1 => any::<u8>()],
        prop_oneof![
            6 => Just(vec![b"r".to_vec()]),
            1 => Just(vec![]),
            1 => Just(vec![vec![0xFF, 0xFE], b"r".to_vec()]),
            1 => Just(vec![b"r".to_vec(), b"r".to_vec(), b"".to_vec()]),
        ],
        bloat(),
        proptest::option::weighted(0.7, raw_block()),
        proptest::option::weighted(0.3, raw_block()),
        prop_oneof![3 => 0u16..=64, 1 => Just(1024u16), 1 => Just(1200), 2 => 0u16..=1200],
    )
        .prop_map(|((endpoint, mtype, token_len), code, path, bloat, block1, block2, payload_len)| HostileReq {
            endpoint,
            mtype: if mtype < 3 { mtype.min(1) } else { mtype },
            token_len,
            code,
            path,
            bloat,
            block1,
            block2,
            payload_len,
        })
        .boxed()
}

fn hostile_reply() -> BoxedStrategy<HostileReply> {
    (
        prop_oneof![8 => Just(true), 1 => Just(false)],
        proptest::sample::select(vec![0x45u8, 0x44, 0x84, 0x00, 0xFF]),
        prop_oneof![3 => 0u16..=64, 2 => 0u16..=2000, 1 => 2000u16..=10_000],
        bloat(),
        proptest::option::weighted(0.15, raw_block()),
    )
        .prop_map(|(present, code, body_len, bloat, preset_block2)| HostileReply { present, code, body_len, bloat, preset_block2 })
        .boxed()
}

fn seq() -> BoxedStrategy<Seq> {
    (
        proptest::collection::vec((hostile_req(), hostile_reply()), 1..=6),
        0u8..10,
        any::<u16>(),
    )
        .prop_map(|(steps, kind, r)| {
            let k = (r as usize) % steps.len();
            let overhead = steps[k].0.spec(0).overhead();
            let budget = match kind {
                0 => r as usize % 65,
                1 | 2 => 1152,
                3 | 4 => (overhead + 11 + (r as usize / 7) % 3).min(6000),
                5 => overhead + (r as usize % 40),
                6 => overhead.saturating_sub(r as usize % 20),
                7 => 1280 + r as usize % 4000,
                _ => r as usize % 5001,
            };
            Seq { budget, steps }
        })
        .boxed()
}

pub fn run(ctx: &Ctx, rep: &mut Report) {
    rep.assume("requests are parseable datagrams; the application fills the prepared response (or not) and the calling protocol of the in-crate TestServerHarness is followed");
    if cfg!(feature = "hooks") {
        rep.note("buffer lengths read through the verif_hooks accessor BlockHandler::verif_upload_len before and after every request");
    } else {
        rep.note("hook unavailable: the buffer clause is not decided in this run (only panic / error clauses)");
    }
    // directed: the budget exactly at overhead + 11 / 12 / 13 with block options
    let mut cases = Vec::new();
    for d in 0..=30usize {
        for (b1, b2) in [
            (Some(RawBlock::Valid { num: 0, more: true, szx: 2 }), None),
            (None, Some(RawBlock::Valid { num: 0, more: false, szx: 0 })),
            (None, None),
            (Some(RawBlock::Valid { num: 3, more: false, szx: 6 }), Some(RawBlock::Valid { num: 1, more: false, szx: 1 })),
        ] {
            let req = HostileReq {
                endpoint: 0,
                mtype: 0,
                token_len: 2,
                code: 3,
                path: vec![b"r".to_vec()],
                bloat: vec![],
                block1: b1,
                block2: b2,
                payload_len: 40,
            };
            let overhead = req.spec(0).overhead();
            let reply = HostileReply { present: true, code: 0x44, body_len: 100, bloat: vec![], preset_block2: None };
            cases.push(Seq { budget: overhead + d, steps: vec![(req.clone(), reply.clone())] });
            if d <= 12 {
                cases.push(Seq { budget: overhead.saturating_sub(d), steps: vec![(req, reply)] });
            }
        }
    }
    // directed: jumps around 16 KiB for every size exponent, after 0..2 buffered blocks
    for szx in 0u8..=7 {
        let size = 16usize << szx;
        for pre in 0..=2u32 {
            for delta in -2i64..=2 {
                let mut steps = Vec::new();
                for i in 0..pre {
                    steps.push((
                        HostileReq { endpoint: 0, mtype: 0, token_len: 0, code: 3, path: vec![b"r".to_vec()], bloat: vec![], block1: Some(RawBlock::Valid { num: i, more: true, szx }), block2: None, payload_len: size.min(1200) as u16 },
                        HostileReply { present: true, code: 0x44, body_len: 0, bloat: vec![], preset_block2: None },
                    ));
                }
                let buffered = pre as usize * size.min(1200);
                let num = ((buffered + JUMP) / size) as i64 + delta;
                if num < 0 {
                    continue;
                }
                // (an empty payload lands exactly on the block boundary: the
                // jump itself is what is measured then)
                for (more, payload_len) in [(true, 9u16), (false, 9), (true, 0), (false, 0), (true, 1), (true, 15)] {
                    let mut st = steps.clone();
                    st.push((
                        HostileReq { endpoint: 0, mtype: 0, token_len: 0, code: 3, path: vec![b"r".to_vec()], bloat: vec![], block1: Some(RawBlock::Valid { num: num as u32, more, szx }), block2: None, payload_len },
                        HostileReply { present: true, code: 0x44, body_len: 0, bloat: vec![], preset_block2: None },
                    ));
                    cases.push(Seq { budget: 1280, steps: st });
                }
            }
        }
    }
    // directed: climb with the largest permitted jumps (so that the buffer's
    // capacity runs well ahead of its length), then probe beyond the limit
    for szx in 0u8..=6 {
        let size = 16usize << szx;
        for payload in [size.min(1200), 1200usize] {
            for climb in 1..=4usize {
                let mut steps = Vec::new();
                let mut len = 0usize;
                for _ in 0..climb {
                    // largest block number whose end is within 16 KiB of the buffered length
                    let num = (len + JUMP - size) / size;
                    steps.push((
                        HostileReq { endpoint: 0, mtype: 0, token_len: 0, code: 3, path: vec![b"r".to_vec()], bloat: vec![], block1: Some(RawBlock::Valid { num: num as u32, more: true, szx }), block2: None, payload_len: payload as u16 },
                        HostileReply { present: true, code: 0x44, body_len: 0, bloat: vec![], preset_block2: None },
                    ));
                    len = len.max(num * size + size) - size + payload;
                }
                for extra in [1usize, 2, 8, 64, 512, 1024] {
                    let num = (len + JUMP) / size + extra;
                    if num > 65535 {
                        continue;
                    }
                    let mut st = steps.clone();
                    st.push((
                        HostileReq { endpoint: 0, mtype: 0, token_len: 0, code: 3, path: vec![b"r".to_vec()], bloat: vec![], block1: Some(RawBlock::Valid { num: num as u32, more: extra % 2 == 1, szx }), block2: None, payload_len: 7 },
                        HostileReply { present: true, code: 0x44, body_len: 0, bloat: vec![], preset_block2: None },
                    ));
                    cases.push(Seq { budget: 1280, steps: st });
                }
            }
        }
    }
    // directed: non-payload parts beyond 1280 bytes on either side
    for (req_bloat, reply_bloat) in [(1300u16, 0u16), (0, 1300), (1400, 1400), (1270, 0), (0, 1270)] {
        for b1 in [None, Some(RawBlock::Valid { num: 0, more: true, szx: 0 })] {
            let req = HostileReq {
                endpoint: 0,
                mtype: 0,
                token_len: 0,
                code: 2,
                path: vec![b"r".to_vec()],
                bloat: if req_bloat > 0 { vec![(35, req_bloat)] } else { vec![] },
                block1: b1,
                block2: None,
                payload_len: 10,
            };
            let reply = HostileReply { present: true, code: 0x45, body_len: 50, bloat: if reply_bloat > 0 { vec![(2048, reply_bloat)] } else { vec![] }, preset_block2: None };
            for budget in [1152usize, 1280, 5000, 64] {
                cases.push(Seq { budget, steps: vec![(req.clone(), reply.clone())] });
            }
        }
    }
    run_list(
        ctx,
        rep,
        "directed-hostile-shapes",
        "budget = request overhead - 12..+30 with Block1 / Block2 / both / none; Block1 jumps within +-2 blocks of 16 KiB for every size exponent after 0..2 buffered blocks; staircases of 1..4 maximal permitted jumps followed by probes 1..1024 blocks beyond the limit; requests and replies whose non-payload part exceeds 1280 bytes under several budgets",
        false,
        cases,
        check_seq,
    );
    let n = ctx.cases(150_000, 15_000_000);
    run_prop(
        ctx,
        rep,
        "random-hostile-sequences",
        "random sequences of 1..=6 hostile requests (all four message types, any code, option bloat up to 1400 bytes, Block1/Block2 with num in {0,1,2,100,4095,..}, szx 0..=7, malformed 3..5-byte block values, both at once, payloads 0..1200, non-UTF-8 and repeated path segments) with application replies (bodies 0..10000, large options, pre-set Block2, or none) under budgets {0..64, 1152, overhead+11/12/13, around the overhead, 0..5000}; non-trivial = a step with budget - overhead - 12 in {<0, 0, 1..15}, an overhead above 1280, or a jump within one block of 16 KiB; distinct by sequence hash",
        n,
        seq,
        check_seq,
    );
}
