use crate::engine::{Ctx, Report};

pub mod c01;
pub mod c02_c03;
pub mod c04;
pub mod c05;
pub mod c06;
pub mod c07;
#[cfg(feature = "std")]
pub mod c08;
#[cfg(feature = "std")]
pub mod c09;
#[cfg(feature = "std")]
pub mod c10;
#[cfg(feature = "std")]
pub mod c11;
#[cfg(feature = "std")]
pub mod c12;
pub mod c19;
#[cfg(feature = "std")]
pub mod c20;
pub mod linkfmt;
pub mod observe;
#[cfg(feature = "std")]
pub mod c13;

pub fn dispatch(ctx: &Ctx, rep: &mut Report) -> bool {
    match ctx.property.as_str() {
        "C01" => c01::run(ctx, rep),
        "C02" => c02_c03::run(ctx, rep, c02_c03::Which::C02),
        "C03" => c02_c03::run(ctx, rep, c02_c03::Which::C03),
        "C04" => c04::run(ctx, rep),
        "C05" => c05::run(ctx, rep),
        "C06" => c06::run(ctx, rep),
        "C07" => c07::run(ctx, rep),
        #[cfg(feature = "std")]
        "C08" => c08::run(ctx, rep),
        #[cfg(feature = "std")]
        "C09" => c09::run(ctx, rep),
        #[cfg(feature = "std")]
        "C10" => c10::run(ctx, rep),
        #[cfg(feature = "std")]
        "C11" => c11::run(ctx, rep),
        #[cfg(feature = "std")]
        "C12" => c12::run(ctx, rep),
        "C19" => c19::run(ctx, rep),
        #[cfg(feature = "std")]
        "C20" => c20::run(ctx, rep),
        "C14" => observe::run(ctx, rep, observe::Which::C14),
        "C15" => observe::run(ctx, rep, observe::Which::C15),
        "C16" => linkfmt::run_c16(ctx, rep),
        "C17" => linkfmt::run_c17(ctx, rep),
        "C18" => linkfmt::run_c18(ctx, rep),
        #[cfg(feature = "std")]
        "C13" => c13::run(ctx, rep),
        _ => return false,
    }
    true
}
