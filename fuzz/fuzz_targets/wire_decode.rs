#![no_main]
//! libFuzzer target `wire_decode`: the semantic oracle of the property named by
//! CLV_FUZZ_PROPERTY (default C03) runs inside the target; any oracle failure
//! or panic of the crate aborts, which libFuzzer reports as a crash.
use libfuzzer_sys::fuzz_target;
use std::sync::OnceLock;

static PROPERTY: OnceLock<String> = OnceLock::new();

fuzz_target!(|data: &[u8]| {
    let property = PROPERTY.get_or_init(|| {
        std::env::var("CLV_FUZZ_PROPERTY").unwrap_or_else(|_| "C03".to_string())
    });
    if let Err(f) = clv::fuzzdec::fuzz_one("wire_decode", property, data) {
        panic!("oracle failure [{}]: {}", f.signature, f.message);
    }
});
