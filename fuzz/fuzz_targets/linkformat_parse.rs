#![no_main]
//! libFuzzer target `linkformat_parse`: the semantic oracle of the property named by
//! CLV_FUZZ_PROPERTY (default C17) runs inside the target; any oracle failure
//! or panic of the crate aborts, which libFuzzer reports as a crash.
use libfuzzer_sys::fuzz_target;
use std::sync::OnceLock;

static PROPERTY: OnceLock<String> = OnceLock::new();

fuzz_target!(|data: &[u8]| {
    let property = PROPERTY.get_or_init(|| {
        std::env::var("CLV_FUZZ_PROPERTY").unwrap_or_else(|_| "C17".to_string())
    });
    if let Err(f) = clv::fuzzdec::fuzz_one("linkformat_parse", property, data) {
        panic!("oracle failure [{}]: {}", f.signature, f.message);
    }
});
