#!/usr/bin/env python3
"""Validate MANIFEST.json and evidence files against the given schemas (needs the tooling venv: python3-vt)."""
import json, sys, glob, jsonschema
ok = True
m = json.load(open('/verif/MANIFEST.json'))
try:
    jsonschema.validate(m, json.load(open('/root/.vp/MANIFEST.schema.json')))
    print('MANIFEST ok')
except Exception as e:
    ok = False; print('MANIFEST INVALID', e)
es = json.load(open('/root/.vp/EVIDENCE.schema.json'))
for f in sorted(glob.glob('/verif/evidence/*.json')):
    try:
        ev = json.load(open(f))
        jsonschema.validate(ev, es)
        c = ev['coverage']
        print(f, 'ok', ev['tier'], c['evaluations'], c['distinct_nontrivial'], 'exh' if c.get('exhaustive') else '', ev['wall_s'])
    except Exception as e:
        ok = False; print(f, 'INVALID', str(e)[:300])
sys.exit(0 if ok else 1)
